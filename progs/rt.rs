//! Runtime shared by every generated program (included with #[path]).
#![allow(dead_code)]

use std::io::Write;

pub struct Alpha;
pub struct Beta;
pub mod inner {
    pub struct Gamma;
    pub mod deeper {
        pub struct Delta;
    }
}
pub struct Wrap<const N: usize>;

fn log_line(line: String) {
    if let Ok(path) = std::env::var("VERIF_LOG") {
        if let Ok(mut f) = std::fs::OpenOptions::new().create(true).append(true).open(path) {
            // One write call per line: concurrent appends from many threads stay intact.
            let _ = f.write_all(format!("{line}\n").as_bytes());
        }
    }
}

fn esc(s: &str) -> String {
    s.replace('\\', "\\\\").replace('|', "\\p").replace('\n', "\\n")
}

/// A benchmark body was invoked.
pub fn hit(uid: u32, ty: &str, cst: &str, arg: &str) {
    log_line(format!("H|{uid}|{}|{}|{}|0", esc(ty), esc(cst), esc(arg)));
}

/// A `Bencher` benchmark body was invoked.
pub fn hit_b<C>(uid: u32, ty: &str, cst: &str, arg: &str, bencher: &divan::Bencher<'_, '_, C>) {
    let v = divan::__verif::bench::bencher_view(bencher);
    log_line(format!(
        "H|{uid}|{}|{}|{}|{}|{:?}|{:?}|{:?}|{:?}|{:?}|{:?}|{:?}|{:?}",
        esc(ty),
        esc(cst),
        esc(arg),
        v.thread_count,
        v.sample_count,
        v.sample_size,
        v.threads,
        v.counters,
        v.min_time.map(|d| d.as_nanos()),
        v.max_time.map(|d| d.as_nanos()),
        v.skip_ext_time,
        v.ignore
    ));
}

/// The args expression of benchmark `uid` was evaluated.
pub fn bump(uid: u32) {
    log_line(format!("E|{uid}"));
}

fn dump_meta(kind: &str, m: &divan::__private::EntryMeta, generic: Option<(usize, usize)>) {
    let o = m.bench_options.as_ref().map(|l| {
        let o: &divan::__private::BenchOptions = l;
        format!(
            "{:?}|{:?}|{:?}|{:?}|{:?}|{:?}|{:?}|{:?}",
            o.sample_count,
            o.sample_size,
            o.threads.as_deref(),
            o.counters,
            o.min_time.map(|d| d.as_nanos()),
            o.max_time.map(|d| d.as_nanos()),
            o.skip_ext_time,
            o.ignore
        )
    });
    println!(
        "D|{kind}|{}|{}|{}|{}|{}|{}|{:?}|{}",
        esc(m.display_name),
        esc(m.raw_name),
        esc(m.module_path),
        esc(m.location.file),
        m.location.line,
        m.location.col,
        generic,
        o.unwrap_or_else(|| "-".into())
    );
}

pub fn main() {
    match std::env::var("VERIF_MAIN").as_deref() {
        Ok("dump") => {
            for e in divan::__private::BENCH_ENTRIES.iter() {
                dump_meta("bench", &e.meta, None);
            }
            for g in divan::__private::GROUP_ENTRIES.iter() {
                let dims = g.generic_benches.map(|outer| (outer.len(), outer.iter().map(|i| i.len()).sum::<usize>()));
                dump_meta("group", &g.meta, dims);
            }
        }
        Ok("list_api") => divan::Divan::default().list_benches(),
        _ => divan::main(),
    }
}
