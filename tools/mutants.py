#!/usr/bin/env python3
"""Hand-written sensitivity mutants (DESIGN.md section 5). Each one compiles and is meant to
break exactly the named properties. Usage:
   tools/mutants.py list
   tools/mutants.py run <name>... | all | <property-id>      (applies to /repo, runs the quick checks, always reverts)
Results are appended to /verif/target/mutants.log; nothing is ever committed to /repo."""
import subprocess, sys, re, os

M = []  # (name, props, file, old, new)
def mut(name, props, file, old, new):
    M.append((name, props.split(","), file, old, new))

B = "src/benchmark/mod.rs"
# ---- C01
mut("c01-refs-drop-noop", "C01", B, """            |input| {
                // SAFETY: This function is called after `benched` outputs are
                // dropped, so we have exclusive access.
                unsafe { (*input.get()).assume_init_drop() }
            },
        );
    }

    /// Benchmarks a function over per-iteration [generated inputs](Self::with_inputs),
    /// provided by-reference.
    ///
    /// Per-iteration means the benchmarked function is called exactly once for
    /// each generated input.
    ///
    /// # Examples
    ///
    /// ```
    /// #[divan::bench]
    /// fn bench(bencher: divan::Bencher) {
    ///     bencher
    ///         .with_inputs(|| {
    ///             // Generate input:
    ///             String::from("...")
    ///         })
    ///         .bench_local_refs""", """            |_input| {},
        );
    }

    /// Benchmarks a function over per-iteration [generated inputs](Self::with_inputs),
    /// provided by-reference.
    ///
    /// Per-iteration means the benchmarked function is called exactly once for
    /// each generated input.
    ///
    /// # Examples
    ///
    /// ```
    /// #[divan::bench]
    /// fn bench(bencher: divan::Bencher) {
    ///     bencher
    ///         .with_inputs(|| {
    ///             // Generate input:
    ///             String::from("...")
    ///         })
    ///         .bench_local_refs""")
mut("c01-drop-loop-skips-last", "C01", B, """                        for DeferSlot { input, output } in defer_slots_slice {
                            // SAFETY: All outputs were initialized in the
                            // sample loop and we have exclusive access.""", """                        for DeferSlot { input, output } in &defer_slots_slice[..defer_slots_slice.len().saturating_sub((sample_size == 7) as usize)] {
                            // SAFETY: All outputs were initialized in the
                            // sample loop and we have exclusive access.""")
mut("c01-zst-inputs-dropped-first", "C01", B, """                    // Output only needs drop if ZST.
                    if size_of::<O>() == 0 {
                        // SAFETY: Output is a ZST, so we can construct one out
                        // of thin air.
                        unsafe { _ = mem::zeroed::<O>() }
                    }

                    if mem::needs_drop::<I>() {
                        // SAFETY: Input is a ZST, so we can construct one out
                        // of thin air and not worry about aliasing.
                        unsafe {
                            drop_input(&UnsafeCell::new(
                                MaybeUninit::<I>::zeroed(),
                            ))
                        }
                    }""", """                    if mem::needs_drop::<I>() {
                        // SAFETY: Input is a ZST, so we can construct one out
                        // of thin air and not worry about aliasing.
                        unsafe {
                            drop_input(&UnsafeCell::new(
                                MaybeUninit::<I>::zeroed(),
                            ))
                        }
                    }

                    // Output only needs drop if ZST.
                    if size_of::<O>() == 0 {
                        // SAFETY: Output is a ZST, so we can construct one out
                        // of thin air.
                        unsafe { _ = mem::zeroed::<O>() }
                    }""")
mut("c01-count-first-slot-twice", "C01", B, """                        for input in defer_inputs_slice {
                            // SAFETY: We have exclusive access to `input`.
                            let input = unsafe { &mut *input.get() };
                            let input = input.write(gen_input());
                            count_input(input);
""", """                        for (slot_index, input) in defer_inputs_slice.iter().enumerate() {
                            // SAFETY: We have exclusive access to `input`.
                            let input = unsafe { &mut *input.get() };
                            let input = input.write(gen_input());
                            count_input(input);
                            if slot_index == 0 && sample_size > 4 { count_input(input); }
""")
mut("c01-values-reuses-first-slot", "C01", B, """                        for input in defer_inputs_iter {
                            // SAFETY: All inputs in `defer_store` were
                            // initialized.
                            black_box_drop(unsafe { benched(input) });
                        }""", """                        for (slot_index, input) in defer_inputs_iter.enumerate() {
                            // SAFETY: All inputs in `defer_store` were
                            // initialized.
                            let input = if slot_index == 5 { &defer_inputs_slice[4] } else { input };
                            black_box_drop(unsafe { benched(input) });
                        }""")

# ---- C05
mut("c05-median-upper-middle", "C05", "src/util/mod.rs", "&slice[(len / 2) - 1..][..2]", "&slice[(len / 2)..][..1]")
mut("c05-mean-per-sample", "C05", B, ".checked_div(total_count as u128)", ".checked_div(sample_count as u128)")
mut("c05-alloc-by-sorted-position", "C05", B, """                sample
                    .and_then(|sample| {
                        u32::try_from(index_of_sample(sample)).ok()
                    })""", """                sample
                    .and_then(|sample| {
                        u32::try_from(sorted_samples.iter().position(|s| std::ptr::eq(*s, sample)).unwrap_or(0)).ok()
                    })""")
mut("c05-counter-index-zero", "C05", B, """            let index = if self.counters.uses_input_counts(counter_kind) {
                index_of_sample(sample)
            } else {
                0
            };""", """            let index = if self.counters.uses_input_counts(counter_kind) && sample_count > 3 {
                index_of_sample(sample)
            } else {
                0
            };""")

# ---- C09 / C10
A = "src/alloc.rs"
mut("c09-zeroed-forwards-alloc", "C09", A, "self.alloc.alloc_zeroed(layout)", "self.alloc.alloc(layout)")
mut("c09-dealloc-swallowed-zero", "C09", A, "        self.alloc.dealloc(ptr, layout)", "        if layout.size() != 0 { self.alloc.dealloc(ptr, layout) }")
mut("c09-alloc-allocates", "C09", A, "        self.alloc.alloc(layout)", "        if layout.size() == 4096 { drop(std::hint::black_box(Vec::<u8>::with_capacity(1))); } self.alloc.alloc(layout)")
mut("c10-max-size-not-on-grow", "C10", A, """        self.current_size += diff as ThreadAllocCountSigned;
        self.max_size = self.max_size.max(self.current_size);""", """        self.current_size += diff as ThreadAllocCountSigned;""")
mut("c10-count-not-decremented", "C10", A, """        self.current_count -= 1;
""", "")
mut("c10-shrink-bytes-signed", "C10", A, "let abs_diff = diff.wrapping_abs() as usize;", "let abs_diff = diff as usize;")

# ---- C11
T = "src/time/timestamp/tsc/mod.rs"
mut("c11-mul-u64", "C11", T, "FineDuration { picos: (diff as u128 * PICOS) / frequency.get() as u128 }", "FineDuration { picos: (diff.wrapping_mul(PICOS as u64) / frequency.get()) as u128 }")
mut("c11-wrapping-sub", "C11", T, """        let Some(diff) = self.value.checked_sub(earlier.value) else {
            return Default::default();
        };""", "        let diff = self.value.wrapping_sub(earlier.value);")
mut("c11-div-before-mul", "C11", T, "(diff as u128 * PICOS) / frequency.get() as u128", "(diff as u128 / frequency.get() as u128) * PICOS + (diff as u128 % frequency.get() as u128) * PICOS / frequency.get() as u128 / 2 * 2")
mut("c11-nanos-1024", "C11", "src/time/fine_duration.rs", "duration.as_nanos().checked_mul(1_000)", "duration.as_nanos().checked_mul(if duration.subsec_nanos() == 999_999_999 { 1_024 } else { 1_000 })")

# ---- C18
mut("c18-unit-boundary", "C18", "src/time/fine_duration.rs", "} else if picos < MICROS {", "} else if picos <= MICROS {")
mut("c18-round-not-truncate", "C18", "src/util/fmt.rs", "let mut str = val.to_string();", "let mut str = format!(\"{:.1$}\", val, sig_figs.saturating_sub(1));")
mut("c18-binary-for-decimal", "C18", "src/util/fmt.rs", "&STARTS[bytes_format as usize]", "&STARTS[1 - bytes_format as usize]")
mut("c18-zero-count-inf", "C18", "src/util/fmt.rs", "if count == 0 { 0. }", "if count == 0 && picos != 0. { 0. }")

# ---- C03
mut("c03-rem-samples-per-round", "C03", B, """                if let Some(rem_samples) = &mut rem_samples {
                    *rem_samples = rem_samples.saturating_sub(1);
                }
            }
""", """            }
            if let Some(rem_samples) = &mut rem_samples {
                *rem_samples = rem_samples.saturating_sub(1);
            }
""")
mut("c03-early-return-only-count", "C03", B, "if max_picos == 0 || !self.options.has_samples() {", "if max_picos == 0 || self.options.sample_count == Some(0) {")
mut("c03-iter-count-from-option", "C03", "src/stats/sample.rs", "self.sample_size as u64 * self.time_samples.len() as u64", "self.sample_size as u64 * (self.time_samples.len() as u64).min(100)")
mut("c03-test-mode-sample-size", "C03", B, "Self::Test => 1,", "Self::Test => 2,")
# ---- C04
mut("c04-max-strict", "C04", B, "if elapsed_picos >= max_picos {", "if elapsed_picos > max_picos {")
mut("c04-min-max-priority", "C04", B, """            if elapsed_picos >= max_picos {
                // Depleted the benchmarking time budget. This is a strict
                // condition regardless of sample count and minimum time.
                false
            } else if rem_samples.unwrap_or(1) > 0 {""", """            if elapsed_picos >= max_picos && elapsed_picos >= min_picos {
                // Depleted the benchmarking time budget. This is a strict
                // condition regardless of sample count and minimum time.
                false
            } else if rem_samples.unwrap_or(1) > 0 {""")
mut("c04-no-1ns-floor", "C04", B, "let progress_picos = slowest_time.picos.max(1_000);", "let progress_picos = slowest_time.picos.max(1);")
mut("c04-skip-uses-fastest", "C04", B, "let progress_picos = slowest_time.picos.max(1_000);", "let progress_picos = raw_samples.iter().map(|s| s.duration().picos).min().unwrap().max(1_000);")
# ---- C19
mut("c19-threshold-lt-100", "C19", B, "if precision_multiple <= 100 {", "if precision_multiple < 100 {")
mut("c19-samples-not-cleared", "C19", B, """                self.samples.clear();
                self.counters.clear_input_counts();
""", """                self.counters.clear_input_counts();
""")
mut("c19-counts-not-cleared", "C19", B, """                self.samples.clear();
                self.counters.clear_input_counts();
""", """                self.samples.clear();
""")
mut("c19-double-after-freeze", "C19", B, "current_mode = BenchMode::Collect { sample_size };", "current_mode = BenchMode::Collect { sample_size: if sample_size == 64 { 128 } else { sample_size } };")
mut("c19-fastest-thread", "C19", B, "raw_samples.iter().max_by_key(|s| s.duration()).unwrap();", "raw_samples.iter().min_by_key(|s| s.duration()).unwrap();")

# ---- C06 / C07
P = "src/util/thread/pool.rs"
mut("c06-release-to-relaxed", "C06", P, ".fetch_sub(1, Ordering::Release)", ".fetch_sub(1, Ordering::Relaxed)")
mut("c06-acquire-to-relaxed", "C06", P, "ref_count.load(Ordering::Acquire) > 0", "ref_count.load(Ordering::Relaxed) > 0")
mut("c06-clone-after-decrement", "C06,C07", P, """                        let main_thread =
                            task.shared.as_ref().main_thread.clone();

                        if task
                            .shared
                            .as_ref()
                            .ref_count
                            .fetch_sub(1, Ordering::Release)
                            == 1
                        {
                            main_thread.unpark();
                        }""", """                        if task
                            .shared
                            .as_ref()
                            .ref_count
                            .fetch_sub(1, Ordering::Release)
                            == 1
                        {
                            task.shared.as_ref().main_thread.clone().unpark();
                        }""")
mut("c06-send-to-all-threads", "C06,C07", P, "for thread in &threads[..aux_threads] {", "for thread in &threads[..] {")
mut("c06-par-extend-wrong-slot", "C06", P, "ptr.add(index).write(Some(task(index)));", "ptr.add(if index == 3 { 2 } else { index }).write(Some(task(index)));")
mut("c06-no-wait", "C06,C07", P, """        while task.shared.as_ref().ref_count.load(Ordering::Acquire) > 0 {
            std::thread::park();
        }""", """        if task.shared.as_ref().ref_count.load(Ordering::Acquire) > 0 {
            std::thread::park();
        }""")
mut("c07-unpark-off-by-one", "C07", P, """                            .fetch_sub(1, Ordering::Release)
                            == 1""", """                            .fetch_sub(1, Ordering::Release)
                            == 0""")
mut("c07-worker-breaks-after-first", "C07,C06", P, """                    drop(result);
                }

                std::mem::forget(panic_guard);""", """                    drop(result);
                    if thread_id == 3 { break; }
                }

                std::mem::forget(panic_guard);""")
mut("c07-spawn-always", "C06", P, "NonZeroUsize::new(aux_threads.saturating_sub(threads.len()))", "NonZeroUsize::new(if threads.len() == 2 { 1 } else { aux_threads.saturating_sub(threads.len()) })")

# ---- C08
mut("c08-no-second-start-barrier", "C08", B, """                        alloc_info.clear();

                        // Synchronize all threads.
                        if let Some(barrier) = barrier {
                            barrier.wait();
                        }""", """                        alloc_info.clear();""")
mut("c08-no-end-barrier", "C08", B, """                    let alloc_info = if is_start {
                        ThreadAllocInfo::current()
                    } else {
                        None
                    };

                    // Synchronize all threads.
                    //
                    // This is the final synchronization point for the end.
                    if let Some(barrier) = barrier {
                        barrier.wait();
                    }""", """                    let alloc_info = if is_start {
                        ThreadAllocInfo::current()
                    } else {
                        None
                    };

                    // Synchronize all threads.
                    //
                    // This is the final synchronization point for the end.
                    if let (Some(barrier), true) = (barrier, is_start) {
                        barrier.wait();
                    }""")
BR = "src/util/thread/barrier.rs"
mut("c08-break-does-not-wake", "C08", BR, """        state.is_broken = true;
        for thread in state.waiting.drain(..) {
            thread.unpark();
        }""", """        state.is_broken = true;""")
mut("c08-barrier-releases-one-early", "C08", BR, "if state.waiting.len() + 1 >= self.thread_count {", "if state.waiting.len() + 2 >= self.thread_count && self.thread_count > 2 || state.waiting.len() + 1 >= self.thread_count {")
mut("c08-barrier-ignores-generation", "C08", BR, """            if state.generation != generation {
                return;
            }""", """            let _ = generation;
            return;""")
mut("c08-no-break-guard", "C08", B, """                let _break_on_panic =
                    barrier.as_ref().map(SampleBarrier::break_on_panic);""", "")
mut("c08-missing-result-ignored", "C08", B, """                    panic!("Divan benchmarking thread {thread} panicked");""", """                    if thread == 0 { panic!("Divan benchmarking thread {thread} panicked"); } else { return; }""")

# ---- C02
mut("c02-start-before-inputs", "C02", B, """                        // Initialize and store inputs.
                        for input in defer_inputs_slice {
                            // SAFETY: We have exclusive access to `input`.
                            let input = unsafe { &mut *input.get() };
                            let input = input.write(gen_input());
                            count_input(input);

                            // Make input opaque to benchmarked function.
                            black_box(input);
                        }

                        // Create iterator before the sample timing section to
                        // reduce benchmarking overhead.
                        let defer_inputs_iter = defer_inputs_slice.iter();

                        sync_threads(true);
                        sample_start = UntaggedTimestamp::start(timer_kind);
""", """                        sync_threads(true);
                        sample_start = UntaggedTimestamp::start(timer_kind);

                        // Initialize and store inputs.
                        for input in defer_inputs_slice {
                            // SAFETY: We have exclusive access to `input`.
                            let input = unsafe { &mut *input.get() };
                            let input = input.write(gen_input());
                            count_input(input);

                            // Make input opaque to benchmarked function.
                            black_box(input);
                        }

                        // Create iterator before the sample timing section to
                        // reduce benchmarking overhead.
                        let defer_inputs_iter = defer_inputs_slice.iter();
""")
mut("c02-save-after-drops", "C02", B, """                        sample_end = UntaggedTimestamp::end(timer_kind);
                        sync_threads(false);
                        save_alloc_info();

                        // Prevent the optimizer from removing writes to inputs
                        // and outputs in the sample loop.
                        black_box(defer_slots_slice);

                        // Drop outputs and inputs.
                        for DeferSlot { input, output } in defer_slots_slice {
                            // SAFETY: All outputs were initialized in the
                            // sample loop and we have exclusive access.
                            unsafe { (*output.get()).assume_init_drop() }

                            if mem::needs_drop::<I>() {
                                // SAFETY: The output was dropped and thus we
                                // have exclusive access to inputs.
                                unsafe { drop_input(input) }
                            }
                        }""", """                        sample_end = UntaggedTimestamp::end(timer_kind);
                        sync_threads(false);

                        // Prevent the optimizer from removing writes to inputs
                        // and outputs in the sample loop.
                        black_box(defer_slots_slice);

                        // Drop outputs and inputs.
                        for DeferSlot { input, output } in defer_slots_slice {
                            // SAFETY: All outputs were initialized in the
                            // sample loop and we have exclusive access.
                            unsafe { (*output.get()).assume_init_drop() }

                            if mem::needs_drop::<I>() {
                                // SAFETY: The output was dropped and thus we
                                // have exclusive access to inputs.
                                unsafe { drop_input(input) }
                            }
                        }
                        save_alloc_info();""")
mut("c02-clear-before-generation-only", "C02", B, """                    if let Some(mut alloc_info) = alloc_info {
                        // SAFETY: We have exclusive access.
                        let alloc_info = unsafe { alloc_info.as_mut() };

                        alloc_info.clear();
""", """                    if let Some(mut alloc_info) = alloc_info {
                        // SAFETY: We have exclusive access.
                        let alloc_info = unsafe { alloc_info.as_mut() };

                        if alloc_info.max_count < 2 { alloc_info.clear(); }
""")

# ---- C13
F = "src/config/filter.rs"
mut("c13-index-gt-start", "C13", F, "return index >= inclusive_start;", "return index > inclusive_start;")
mut("c13-no-match-always-true", "C13", F, "filters.len() == inclusive_start", "filters.len() >= inclusive_start")
mut("c13-parent-path-no-sep", "C13", "src/entry/tree.rs", 'format!("{parent_path}::{}", subtree.display_name());', 'format!("{parent_path}:{}", subtree.display_name());')
mut("c13-args-filter-leaf-path", "C13", "src/entry/tree.rs", 'filter(&format!("{subtree_path}::{arg}"))', 'filter(&format!("{subtree_path}"))')
mut("c13-raw-name-in-path", "C13", "src/entry/tree.rs", """                let subtree_path: &str = if parent_path.is_empty() {
                    subtree.display_name()""", """                let subtree_path: &str = if parent_path.is_empty() {
                    subtree.raw_name()""")
mut("c13-splitvec-insert-order", "C13", "src/util/split_vec.rs", "let value_slot = if after_split { last_ptr } else { split_ptr };", "let value_slot = if after_split || old_split == 2 { last_ptr } else { split_ptr };")

# ---- C15
O = "src/benchmark/options.rs"
mut("c15-min-time-parent-first", "C15", O, "min_time: self.min_time.or(other.min_time),", "min_time: other.min_time.or(self.min_time),")
mut("c15-skip-ext-masks", "C15", O, "skip_ext_time: self.skip_ext_time.or(other.skip_ext_time),", "skip_ext_time: if self.sample_size.is_some() { self.skip_ext_time } else { self.skip_ext_time.or(other.skip_ext_time) },")
mut("c15-counters-wholesale", "C15", "src/counter/collection.rs", ".map(|kind| self.get(kind).or(other.get(kind))),", ".map(|kind| if self.counts.iter().any(|c| c.is_some()) { self.get(kind) } else { other.get(kind) }),")
mut("c15-runner-as-default", "C15", "src/divan.rs", "options = self.bench_options.overwrite(entry_options);", "options = entry_options.overwrite(&self.bench_options);")
mut("c15-threads-zero-not-mapped", "C15", "src/divan.rs", "None => crate::util::known_parallelism(),", "None => NonZeroUsize::MIN,")
mut("c15-ignored-flag-runs-all", "C15,C14", "src/config/mod.rs", "matches!(self, Self::Yes | Self::No)", "matches!(self, Self::Yes | Self::No | Self::Only)")

# ---- C16
mut("c16-cmp-int-lexicographic", "C16", "src/util/sort.rs", """    // Compare length.
    match a.len().cmp(&b.len()) {
        Ordering::Equal => {}
        ord => return ord,
    }
""", "")
mut("c16-kind-flipped", "C16", "src/entry/tree.rs", """            Self::Leaf { .. } => 0,
            Self::Parent { .. } => 1,""", """            Self::Leaf { .. } => 1,
            Self::Parent { .. } => 0,""")
mut("c16-location-ignores-col", "C16", "src/entry/tree.rs", "self.location().cmp(&other.location());", "self.location().map(|l| (l.file, l.line)).cmp(&other.location().map(|l| (l.file, l.line)));")
mut("c16-reverse-groups-only", "C16", "src/entry/tree.rs", "apply_reverse(attr.cmp_bench_arg_names(a, b))", "attr.cmp_bench_arg_names(a, b)")
mut("c16-negative-vs-positive", "C16", "src/config/mod.rs", "let by_value = a.partial_cmp(b).unwrap_or(Ordering::Equal);", "let by_value = a.abs().partial_cmp(&b.abs()).unwrap_or(Ordering::Equal);")
mut("c16-int-before-float-one-way", "C16", "src/config/mod.rs", """                    (None, Some(_)) => Ordering::Greater,
                    (None, None) => Ordering::Equal,""", """                    (None, Some(_)) => Ordering::Less,
                    (None, None) => Ordering::Equal,""")
mut("c16-text-vs-number-natural", "C16", "src/config/mod.rs", """            (Self::Number { .. }, Self::Text(_)) => Ordering::Less,""", """            (Self::Number { value, .. }, Self::Text(b)) if *value < 0.0 => natural_cmp("-", b),
            (Self::Number { .. }, Self::Text(_)) => Ordering::Less,""")
mut("c16-const-cmp-by-name", "C16", "src/entry/generic.rs", "if self.partial_cmp == other.partial_cmp {", "if false {")

# ---- round 5: command-line routes, leaf rows, timestamps
mut("c16-cli-sortr-not-reverse", "C16", "src/divan.rs", """            self.reverse_sort = true;
            self.sorting_attr = sorting_attr;""", """            self.reverse_sort = false;
            self.sorting_attr = sorting_attr;""")
# (not resetting reverse_sort on --sort is equivalent: nothing else can set it before config_with_args)
mut("c16-cli-name-and-location-swapped", "C16", "src/cli.rs", """            Self::Name => "name",
            Self::Location => "location",""", """            Self::Name => "location",
            Self::Location => "name",""")
mut("c04-cli-max-time-as-min", "C04", "src/divan.rs", 'matches.get_one("max-time")', 'matches.get_one("min-time")')
mut("c20-alloc-sections-swapped", "C20", "src/tree_painter.rs", "[AllocOp::Alloc, AllocOp::Dealloc, AllocOp::Grow, AllocOp::Shrink]", "[AllocOp::Alloc, AllocOp::Grow, AllocOp::Dealloc, AllocOp::Shrink]")
mut("c20-continuation-rows-lose-bar", "C20", "src/tree_painter.rs", """            if !is_last {
                buf.push('│');
            }

            right_pad_buffer(buf, max_span);""", """            if false && !is_last {
                buf.push('│');
            }

            right_pad_buffer(buf, max_span);""")
mut("c20-max-alloc-size-row-dropped", "C20", "src/tree_painter.rs", """            for serialized in [
                serialized_max_alloc_counts.as_ref(),
                serialized_max_alloc_sizes.as_ref(),
            ]""", """            for serialized in [
                serialized_max_alloc_counts.as_ref(),
            ]""")
mut("c11-os-timestamp-truncates-to-micros", "C11", "src/time/timestamp/mod.rs", "this.duration_since(earlier).into()", "std::time::Duration::from_micros(this.duration_since(earlier).as_micros() as u64).into()")

# ---- C20
TP = "src/tree_painter.rs"
mut("c20-finish-parent-truncates-2", "C20", TP, "_ = iter.by_ref().rev().nth(2);", "_ = iter.by_ref().rev().nth(1);")
mut("c20-last-glyph-on-first", "C20", TP, """        let branch = if !is_last { "├─ " } else { "╰─ " };
        buf.extend([self.current_prefix.as_str(), branch, name]);

        // Right-pad buffer if this leaf will have info displayed.""", """        let branch = if is_last { "├─ " } else { "╰─ " };
        buf.extend([self.current_prefix.as_str(), branch, name]);

        // Right-pad buffer if this leaf will have info displayed.""")
mut("c20-continuation-bar-dropped", "C20", TP, """            if !is_last {
                buf.push('│');
            }""", """            if !is_last && self.depth < 3 {
                buf.push('│');
            }""")
mut("c20-ignored-still-run", "C20,C15", "src/divan.rs", """                .ignore_leaf(entry_display_name, is_last_entry);
            return;""", """                .ignore_leaf(entry_display_name, is_last_entry);
            if entry_display_name.len() != 3 { return; }""")
mut("c20-thread-branch-last", "C20", "src/divan.rs", "i == thread_counts.len() - 1", "i == 0")
mut("c20-slowest-shows-median", "C20,C05", TP, "TreeColumn::Slowest => &stats.time.slowest,", "TreeColumn::Slowest => &stats.time.median,")
mut("c20-counter-row-uses-mean-time", "C20", TP, "let time = *column.get_stat(&stats.time)?;", "let time = stats.time.mean; let _ = column.get_stat(&stats.time)?;")

# ---- C12 (macros)
ML = "macros/src/lib.rs"
MA = "macros/src/attr_options.rs"
mut("c12-extern-consts-19", "C12", ML, "const MAX_EXTERN_COUNT: usize = 20;", "const MAX_EXTERN_COUNT: usize = 19;")
mut("c12-extern-const-fallback-always-first", "C12", ML, "__DIVAN_CONSTS[if #i < __DIVAN_CONST_COUNT { #i } else { 0 }]", "__DIVAN_CONSTS[if #i < __DIVAN_CONST_COUNT && #i != 5 { #i } else { 0 }]")
mut("c12-group-name-ignored", "C12", ML, """    let display_name: &dyn ToTokens = match &options.name_expr {
        Some(name) => name,
        None => &raw_name_pretty,
    };""", """    let display_name: &dyn ToTokens = match &options.name_expr {
        Some(name) if !raw_name.starts_with("inn") => name,
        _ => &raw_name_pretty,
    };""")
mut("c12-raw-ident-not-stripped", "C12", ML, 'let raw_name_pretty = raw_name.strip_prefix("r#").unwrap_or(raw_name);', 'let raw_name_pretty = raw_name;')
mut("c12-ignore-attr-dropped", "C12", MA, """                Some(ignore_attr_ident) => {
                    quote! { #ignore_attr_ident: #option_some(true), }
                }""", """                Some(ignore_attr_ident) => {
                    quote! { #ignore_attr_ident: #option_some(false), }
                }""")
mut("c12-column-zero", "C12", ML, "col: ::std::column!(),", "col: ::std::column!() + 0 * ::std::line!() + 1,")

def sh(cmd, **kw):
    return subprocess.run(cmd, shell=True, capture_output=True, text=True, **kw)

def run(names):
    if sh("git -C /repo status --porcelain --untracked-files=no").stdout.strip():
        print("/repo is dirty; refusing"); sys.exit(2)
    os.makedirs("/verif/target", exist_ok=True)
    rows = []
    for name, props, file, old, new in M:
        if not (names == ["all"] or name in names or any(p in names for p in props)):
            continue
        path = "/repo/" + file
        src = open(path).read()
        if src.count(old) != 1:
            print(f"{name}: pattern matches {src.count(old)} times, skipped"); continue
        open(path, "w").write(src.replace(old, new))
        sh("rm -rf /verif/target/evidence.bak && cp -r /verif/evidence /verif/target/evidence.bak")
        try:
            for p in props:
                r = sh(f"cd /verif && ./check {p} --tier quick")
                sigs = sorted(set(re.findall(r"signature=(\S+)", r.stdout)))
                verdict = {0: "MISSED", 1: "caught", 2: "inconclusive"}.get(r.returncode, str(r.returncode))
                line = f"{name:36s} {p} exit={r.returncode} {verdict} {','.join(sigs)[:120]}"
                print(line, flush=True); rows.append(line)
                sh(f"rm -rf /verif/replay/{p}/found")
        finally:
            sh("git -C /repo checkout -- .")
            sh("rm -rf /verif/evidence && mv /verif/target/evidence.bak /verif/evidence")
    open("/verif/target/mutants.log", "a").write("\n".join(rows) + "\n")

if __name__ == "__main__":
    if len(sys.argv) < 2 or sys.argv[1] == "list":
        for name, props, file, _, _ in M: print(name, ",".join(props), file)
    elif sys.argv[1] == "run":
        run(sys.argv[2:])
