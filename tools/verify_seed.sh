#!/bin/bash
# usage: tools/verify_seed.sh <ID> <A|B> "<demo command>"
# Confirms in the scratch worktree /tmp/seed/<ID>: patch builds, 66 tests pass, demo fails with / passes without.
id="$1"; ab="$2"; demo="$3"
wt=${SEED_BASE:-/tmp/seed}/$id; out=$wt/seed_out/$ab; log=$wt/verify_$ab.log
cd "$wt" || exit 2
export CARGO_NET_OFFLINE=true
{
git checkout -q -- . ; git clean -fdq -e seed_out -e 'verify_*.log' -e target
git apply "$out/patch.diff" || { echo "RESULT $id-$ab patch-does-not-apply"; exit 1; }
cargo build --offline 2>&1 | tail -2
cargo test --workspace --no-fail-fast --offline 2>&1 | grep -E "^test result|FAILED|failed" > $wt/verify_$ab.tests
passed=$(grep -E "^test result" $wt/verify_$ab.tests | sed -E 's/.* ([0-9]+) passed.*/\1/' | paste -sd+ | bc)
failed=$(grep -E "^test result" $wt/verify_$ab.tests | sed -E 's/.* ([0-9]+) failed.*/\1/' | paste -sd+ | bc)
echo "suite with patch: passed=$passed failed=$failed"
if [ -f "$out/demo.diff" ]; then git apply "$out/demo.diff" || echo "demo.diff does not apply"; else cp "$out"/*.rs tests/ 2>/dev/null; fi
( eval "$demo" ) > $wt/verify_$ab.demo_with 2>&1; with=$?
git apply -R "$out/patch.diff" || echo "cannot revert patch"
( eval "$demo" ) > $wt/verify_$ab.demo_without 2>&1; without=$?
echo "demo exit with patch=$with without patch=$without"
git checkout -q -- . ; git clean -fdq -e seed_out -e 'verify_*' -e target
if [ "$failed" = "0" ] && [ "$with" != "0" ] && [ "$without" = "0" ]; then echo "RESULT $id-$ab CONFIRMED passed=$passed"; else echo "RESULT $id-$ab NOT-CONFIRMED passed=$passed failed=$failed with=$with without=$without"; fi
} > "$log" 2>&1
tail -1 "$log"
