#!/bin/bash
# usage: tools/collect_seed.sh <ID> <A|B> "<demo cmd>" "<what it needs to manifest>"
id="$1"; ab="$2"; demo="$3"; needs="$4"; as="${5:-$ab}"
base=${SEED_BASE:-/tmp/seed}
src=$base/$id/seed_out/$ab; dst=/verif/seeded/$id-$as
grep -q "RESULT $id-$ab CONFIRMED" $base/$id/verify_$ab.log || { echo "$id-$ab not confirmed"; exit 1; }
mkdir -p "$dst" && cp -r "$src"/* "$dst"/
python3 - "$id" "$ab" "$demo" "$needs" "$dst" "$as" "$base" <<'PY'
import json,sys
id,ab,demo,needs,dst,as_,base=sys.argv[1:8]
log=open(f"{base}/{id}/verify_{ab}.log").read().strip().splitlines()
meta={"id":f"{id}-{as_}","breaks_property":id,"patch":"patch.diff","demonstration":"demo.diff (apply on top of the tree, then run the demo command)",
 "demo_cmd":demo,"needs_to_manifest":needs,
 "confirmed_by":"tools/verify_seed.sh in a scratch worktree: patch applies and builds; cargo test --workspace --no-fail-fast --offline passes (66 tests + 84 doctests); demo fails with the patch and passes without it",
 "verify_log_tail":log[-3:],"origin":"independent sub-agent given only the property text and a scratch worktree"}
json.dump(meta,open(dst+"/meta.json","w"),indent=1)
PY
echo collected $id-$as
