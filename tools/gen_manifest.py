#!/usr/bin/env python3
"""Writes /verif/MANIFEST.json from the table below (kept next to the checks so the
manifest is always valid and current). Usage: python3 tools/gen_manifest.py"""
import json, subprocess, sys

HOOK_COMMITS = subprocess.run(
    ["git", "-C", "/repo", "log", "--format=%H %s", "--grep=^verif hooks"],
    capture_output=True, text=True).stdout.strip().splitlines()

# id -> (technique, level text, level note, design ref)
CHECKS = {
    "C11": (
        "property-based testing (proptest): floor-division validity predicate in checked u128, metamorphic laws (monotone, additive within 1 ps, shift-invariant), exact Duration conversion, virtual-clock precision measurement",
        "Generated-input search over (a,b,f) in u64 x u64 x (u64\\{0}) with a boundary-heavy mixture, all Durations, and scripted uniform-step clocks; the oracle is a validity predicate q*f <= (b-a)*10^12 < (q+1)*f evaluated in checked 128-bit arithmetic, independent of the implementation's expression. Exploration, not proof: absence is not established, but every boundary class named in the property is generated thousands of times per run.",
        "Trusts the cfg(divan_verif) wrappers (they call the production functions unchanged) and the scripted TSC reader for the precision clause (precondition: a non-zero one-step difference is observable at least once per 50 reading pairs).",
        "DESIGN.md section 4, C11"),
}

NOT_YET = {
}

def main():
    checks = []
    for pid in sorted(CHECKS):
        tech, text, note, ref = CHECKS[pid]
        checks.append({
            "property_id": pid,
            "quick_cmd": f"./check {pid} --tier quick",
            "thorough_cmd": f"./check {pid} --tier thorough",
            "evidence_file": f"/verif/evidence/{pid}.json",
            "replay_cmd_template": f"./check {pid} --replay {{path}}",
            "engine": "vcheck",
            "level_claimed": {"category": "exploration", "text": text, "design_ref": ref},
            "level_note": note,
            "technique": tech,
        })
    all_ids = [json.loads(l)["id"] for l in open("/verif/properties.jsonl")]
    not_applicable = []
    for pid in all_ids:
        if pid not in CHECKS:
            not_applicable.append({
                "property_id": pid,
                "reason": NOT_YET.get(pid, "check not built yet in this revision of /verif (planned, see DESIGN.md section 4); nothing is claimed for it"),
            })
    manifest = {
        "version": 1,
        "setup_cmd": "cd /verif/harness && CARGO_NET_OFFLINE=true cargo build --release --offline",
        "hooks": {
            "guard": "--cfg divan_verif",
            "enable": "RUSTFLAGS / [build] rustflags = [\"--cfg\", \"divan_verif\"] in /verif/harness/.cargo/config.toml; divan is a path dependency on /repo, so every check rebuilds it from the current working tree",
            "baseline_off_cmd": "cd /repo && cargo nextest run --workspace --no-fail-fast --tool-config-file pb:/w/lib/nextest.toml --profile pb --test-threads 8 --offline || cargo test --workspace --no-fail-fast --offline",
            "source_commits": [l.split()[0] for l in HOOK_COMMITS],
            "add_only": True,
        },
        "engines": [
            {"name": "vcheck", "path": "/verif/harness", "serves_properties": sorted(CHECKS),
             "kind_free_text": "Rust binary driving proptest TestRunner (fixed seeds from VERIF_SEED, 16 shard processes), small-scope enumeration, a deterministic thread scheduler for generated schedules, reference models/oracles per property, shrinking to JSON replay files"},
        ],
        "checks": checks,
        "not_applicable": not_applicable,
        "notes": "Known findings live in /verif/known_findings.json; replay files under /verif/replay/<ID>/{golden,found}. Exit codes: 0 held, 1 violation (VIOLATION line), 2 inconclusive/infrastructure.",
    }
    json.dump(manifest, open("/verif/MANIFEST.json", "w"), indent=1)
    print("wrote MANIFEST.json with", len(checks), "checks;", len(not_applicable), "not claimed")

if __name__ == "__main__":
    main()
