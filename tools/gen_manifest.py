#!/usr/bin/env python3
"""Writes /verif/MANIFEST.json from the table below (kept next to the checks so the
manifest is always valid and current). Usage: python3 tools/gen_manifest.py"""
import json, subprocess, sys

HOOK_COMMITS = subprocess.run(
    ["git", "-C", "/repo", "log", "--format=%H %s", "--grep=^verif hooks"],
    capture_output=True, text=True).stdout.strip().splitlines()

# id -> (technique, level text, level note, design ref)
LOOP_NOTE = "Trusts the cfg(divan_verif) hook layer: the scripted timestamp counter only replaces the source of TSC readings, precision/overheads are supplied instead of measured, crate-private results are copied out unchanged. T > 1 runs use real threads with per-thread scripted clocks (per-thread logs are deterministic; cross-thread interleavings are C08's domain)."

TWIN_NOTE = "Trusts the twin registry: entries are built from the public __private structs exactly as the macros emit them and pushed through the public EntryList::push; the real Divan::main / run_action runs unchanged (positive filters, sort, list actions and the TSC timer are set through a cfg(divan_verif) hook because only the CLI can set them; the CLI itself is exercised in a child process through divan::main() and, with the argument list supplied through the cfg(divan_verif) hook __verif::cli, in-process through the same clap command and config_with_args()). Benchmark bodies log every invocation."

CHECKS = {
    "C01": (
        "property-based testing + small-scope enumeration: per-id life-cycle automaton over the event log of the real sample loop driven with instrumented values; generated panic points",
        "The real Bencher entry points are driven with instrumented values (ids, destructors that log) and instrumented closures; a life-cycle automaton (generated -> counted once per counter -> passed to exactly one call -> output dropped once after the timed section and before its input -> input dropped once; same thread; _local on the caller) judges the complete event log. The 6 x 4 x 4 entry/shape matrix x {bench,test} x {T=1,3} is enumerated completely, everything else (sizes, counts, threads, tuned sizes, counters, panic at occurrence k of generator/counter/function/destructors) is random with shrinking. Exploration only.",
        LOOP_NOTE + " Zero-sized shapes have no identity: multiplicities and order only. Panic plans only for T = 1 here.",
        "DESIGN.md section 4, C01"),
    "C02": (
        "property-based testing: event-order check around logged timestamps + exact reference tally of in-window allocator operations (real allocations through the profiler, harness bypassed)",
        "Generated allocation scripts (real std::alloc calls) run in the generator, counters, benchmarked function and both destructors; the log is cut at the scripted timestamp reads. (a) nothing but the sample's calls lies between a start and end reading; (b) each sample's recorded tally equals a reference tally of exactly the operations that thread performed between its two readings (including tuned runs, where discarded rounds must leave nothing behind). Exploration only.",
        LOOP_NOTE + " Program order only: instruction reordering across the fences is invisible to any test.",
        "DESIGN.md section 4, C02"),
    "C03": (
        "property-based testing: closed form s*T*ceil(n/T) vs per-thread call counts, recorded samples, Stats and printed cells; the same closed form over generated crates run through main(), run_benches(), test_benches() and through builder calls followed by config_with_args() over real flags and DIVAN_* variables (child process); the builder + flags + variables route also with the command line parsed in-process by the real clap command (hook __verif::cli), ten times the cases; test runs requested as --test, --bench --test and --test --bench; printed samples / iters cells of every thread-count row of bench runs through main()",
        "Generated (n, s, T, mode, entry, shape, max_time in {unset,0}) with n biased to {0,1,T-1,T,T+1,default}; the per-thread number of timed sections and calls, the recorded samples, Stats.sample_count/iter_count and the printed samples/iters cells must equal the closed form of the statement. Exploration only.",
        LOOP_NOTE,
        "DESIGN.md section 4, C03"),
    "C04": (
        "property-based testing: trace checker replaying the stopping rule over the logged clock readings of generated cost histories (ties on the budgets generated on purpose); budget routes: min_time / max_time / skip_ext_time set by attribute, group, builder call before config_with_args(), flag or DIVAN_* variable must reach the loop unchanged and a zero max_time from any of them means no sample (in-process command line, C15's reference resolution restricted to the time fields and the call count)",
        "Generated option sets and cost scripts with budgets placed relative to the per-round cost; the checker recomputes elapsed time after every round from the logged readings exactly as the statement defines it (initial start .. latest end, or sum of slowest timed sections with the 1 ns floor) and requires the executed number of rounds to be the smallest one satisfying the rule, max_time having priority. Exploration only.",
        LOOP_NOTE,
        "DESIGN.md section 4, C04"),
    "C05": (
        "property-based testing: exact integer order-statistics reference over injected sample multisets and over samples derived from loop traces; painted-row scan; loop runs with generated non-zero overheads (stored sample = reading - overhead of the sample loop and of the tally bookkeeping)",
        "(a) arbitrary multisets (empty, singleton, ties, > 2^64 ps), sparse allocation tallies and counter values are injected into a real BenchContext and compute_stats / the row painter are judged by an independent reference in integer arithmetic that accepts every sample attaining a tied duration; (b) runs through the real loop, where the samples are re-derived from the trace so the sample -> index -> alloc/counter association is checked end to end. Found and fixed a division by zero / NaN with zero samples. Exploration only.",
        LOOP_NOTE + " Float figures compared with relative tolerance 1e-12.",
        "DESIGN.md section 4, C05"),
    "C06": (
        "generated schedules on the real pool under a deterministic scheduler (property-based testing of schedules + bounded enumeration): once-per-index, vector-clock happens-before, liveness registry of the task block, result-vector model, spawn accounting",
        "divan's real ThreadPool runs generated histories of broadcasts/par_extends (varying n, panicking subsets, payloads whose destructor panics, reused/cleared result vectors, broadcasts issued from another thread) under a std-only deterministic scheduler in which the schedule is a generated, shrinkable input (sparse PCT-style preemptions, dense random choices, spurious park wake-ups); for the histories [1], [2], [1,1] every choice vector with at most 2 (thorough: 3) non-zero entries in the first L positions is enumerated. Judged: each index called once on the right, distinct, reused threads; return after and happens-after every call (vector clocks honouring the Ordering arguments); per-index results; no operation on a dropped shim object of the task block; threads spawned only when needed. Exploration (bounded-exhaustive for the named sub-space), no proof.",
        "Trusts the scheduler and std shim in /repo/src/verif (documented semantics of park/unpark, Mutex, rendezvous channel, spawn; sequentially consistent interleavings; weak memory only as missing release/acquire edges).",
        "DESIGN.md sections 3 and 4, C06"),
    "C07": (
        "generated schedules on the real pool under a deterministic scheduler: deadlock detector (no runnable thread while some thread is unfinished), termination, worker-exit accounting after the pool is dropped",
        "Same driver as C06 with longer histories (up to 8 broadcasts, n up to 5, growing and shrinking), panicking subsets, spurious wake-ups, stale unpark tokens pending for the caller, broadcasts from a second caller thread, and the pool dropped at the end. The scheduler proves a deadlock (never a wall-clock timeout); every execution must complete all broadcasts with right results and all spawned workers must exit. Liveness for the explored finite schedules only.",
        "Same trust base as C06. A payload whose destructor panics on a worker aborts by design and is not generated for worker indices.",
        "DESIGN.md sections 3 and 4, C07"),
    "C08": (
        "generated schedules over the real sample loop on T in 2..4 threads under the deterministic scheduler: global phase order per round from the serialised event log, per-thread tally model, generated panic plans",
        "The real bench loop (pool + per-round barrier) runs under the scheduler with generated schedules, explicit yields inside the instrumented closures, per-thread distinguishable allocation scripts and panic plans (one thread or all, any phase, any round). Per round: every thread's last generation/count and tally clear precede every start timestamp; every end timestamp precedes every drop; each sample's tally is its own thread's in-window operations; a fired panic must end in a panic on the caller without a deadlock state. One genuine defect is listed as a known finding (strict-subset panic before the end barrier hangs).",
        "Same trust base as C06 plus the loop hooks (scripted clock, tally-clear observer).",
        "DESIGN.md sections 3 and 4, C08"),
    "C09": (
        "property-based testing: scripted mock inner GlobalAlloc (call log = request log, returns identical), global-allocator watch for re-entry/allocation, fresh-thread and TLS-destructor contexts; in the thread-local-destructor context also with the profiler's own thread-local slot torn down before the requests are issued (late priming)",
        "Generated request sequences with valid layouts up to isize::MAX, arbitrary pointers and scripted returns incl. null are issued through AllocProfiler<Mock>; the mock's log must equal the request sequence, every return must be the scripted one, and no call may reach the process allocator from inside a wrapper call; also on a thread whose first action is the call and inside a thread-local destructor. Exploration only.",
        "Trusts the mock (never touches memory). Thread tear-down on Linux ELF TLS only.",
        "DESIGN.md section 4, C09"),
    "C10": (
        "property-based testing (model-based): i128 reference tally/peak model vs the thread-local tally after generated operation sequences on 1..8 threads",
        "Generated operation sequences (sizes 0..2^40, shrink to 0, equal-size realloc, deallocating more than allocated since the clear, interleaved clears and check points, up to 3000 ops, up to 8 concurrent threads through one profiler) are compared after every check point with a reference model written from the statement; the caller's tally must be untouched by other threads. Exploration only.",
        "Trusts the cfg(divan_verif) accessor (copies the thread-local tally). An equal-size realloc may count as grow or shrink.",
        "DESIGN.md section 4, C10"),
    "C11": (
        "property-based testing (proptest): floor-division validity predicate in checked u128, metamorphic laws (monotone, additive within 1 ps, shift-invariant), exact Duration conversion, virtual-clock precision measurement; Timestamp::duration_since through the tagged enum on OS timestamps (exact nanoseconds x 1000 for spans up to 2^33 s) and TSC timestamps; the cached Timer::precision() of both timer kinds queried in either order in a fresh child process (scripted TSC clock)",
        "Generated-input search over (a,b,f) in u64 x u64 x (u64\\{0}) with a boundary-heavy mixture, all Durations, and scripted uniform-step clocks; the oracle is a validity predicate q*f <= (b-a)*10^12 < (q+1)*f evaluated in checked 128-bit arithmetic, independent of the implementation's expression. Exploration, not proof: absence is not established, but every boundary class named in the property is generated thousands of times per run.",
        "Trusts the cfg(divan_verif) wrappers (they call the production functions unchanged) and the scripted TSC reader for the precision clause (precondition: a non-zero one-step difference is observable at least once per 50 reading pairs).",
        "DESIGN.md section 4, C11"),
    "C12": (
        "generated programs compiled with the real macros (program-level property-based testing): expected registrations from the program model vs registry dump, executed cases and listings; metamorphic re-emission in opposite source order; registration-order permutations on the in-process registry",
        "A program model (the same spec type the twin uses) is emitted as Rust source by an emitter that tracks the line and column of every attribute; the programs (one hand-written model with every special form + generated ones, each also with items in the opposite textual order) are compiled as harness = false bench targets and run: the registry dump (kind, display name, raw name, module path, file:line:col, generic dimensions, options as written), the cases executed by --test --include-ignored and the nodes of --list must equal what the model says, nothing else may be registered, empty types/consts/args lists register nothing, and both source orders must agree. Constructor order, which source order cannot control on ELF, is varied on the in-process registry (generated permutations must not change cases, shown nodes or effective options). Exploration only.",
        "A generated program that does not compile is a generator fault (exit 2). Link order on Mach-O / COFF is not exercised. " + TWIN_NOTE,
        "DESIGN.md section 4, C12 and E3"),
    "C13": (
        "property-based testing (model-based): reference selection rule (regex crate as matcher) vs executed cases and printed nodes of the real runner over generated entry trees and filter sets; in-process and through real command lines; FilterSet::is_match differential; the command-line route also parsed in-process (hook __verif::cli) with ten times the cases and a libFuzzer target",
        "Generated crates (module trees, groups with custom names, args, types, consts, duplicate / non-ASCII / '::'-containing names, random registration order) and filter sets built from the tree; the set of benchmark bodies invoked and the multiset of nodes printed by the real runner (parsed back) must equal the reference selection: selected iff no skip matches and (no positive or some positive matches), per argument case, ancestors shown iff a selected case lies below. Also through --skip / positional / --exact on a real command line, and FilterSet::is_match against the reference on generated paths. Exploration only.",
        TWIN_NOTE,
        "DESIGN.md section 4, C13"),
    "C14": (
        "property-based testing (differential + model): empty invocation log under every list action; terse lines = cases executed by a test run with the same filters/flags; --exact round trip; the command-line round trip also with the command line parsed in-process (hook __verif::cli), with a libFuzzer target",
        "Generated crates with ignore set directly, inherited, overridden to false inside an ignored group, x filter sets x {none, --ignored, --include-ignored}: --list, --list --format terse (NEXTEST=1) and Divan::list_benches() must invoke nothing; the multiset of terse lines must equal the paths of exactly the cases a test run executes (which itself must match the reference ignore/selection rule); listed unique paths fed back as the only --exact filter select exactly that case. Found and fixed two defects (list_benches ran everything; terse listing ignored inherited ignore). Exploration only.",
        TWIN_NOTE,
        "DESIGN.md section 4, C14"),
    "C15": (
        "small-scope enumeration of the presence lattice + property-based testing: per-field precedence model vs the effective options observed inside the benchmark body and behaviour (calls, thread branches, skipped benchmarks); builder, CLI flags and DIVAN_* environment; flags and DIVAN_* variables also parsed in-process (hook __verif::cli); builder calls before config_with_args() as the lowest run-time source (flag over variable over builder, per field)",
        "For each of the 11 option fields all 2^5 presence patterns over (runner, benchmark, 3 nested groups) are enumerated (exhaustive for that sub-space); random trees set every field independently at every level. The effective BenchOptions and thread count each body is handed, the counters its Bencher holds after Bencher::counter / input_counter, the number of calls and which benchmarks are skipped must match: runner over benchmark over innermost..outermost group, per field; 0 threads = available parallelism, sorted, de-duplicated. The runner level is set by builder calls in-process and by flags, environment variables and both (flags win) in a child process. Exploration only.",
        TWIN_NOTE,
        "DESIGN.md section 4, C15"),
    "C16": (
        "property-based testing: reference natural/numeric comparator and order laws on the real comparators; printed sibling and argument order of generated trees judged by a reference comparator (non-decreasing), --sortr exact reverse for strict orders, permutation; the tree order also requested through --sort / --sortr, DIVAN_SORT / DIVAN_SORTR and a flag over the variable of the same option (in-process command line)",
        "Pure level: natural_cmp equals a reference (digit runs by value, else bytes) and is a total preorder on generated names; argument lists (all-integer incl. negatives and 128-bit, all-float, all-string) sorted by the real comparator must be a permutation in the documented order for 3 attributes x 2 directions; mixed lists only permutation / no panic. Tree level: the real runner prints generated sibling sets (leaves / groups, custom names, generic consts, location ties on purpose); the parsed order must be consistent with the reference comparator and --sortr the exact reverse when keys are strict. Found and fixed integer arguments not being compared by value; a panic on long mixed lists is a known finding. Exploration only.",
        TWIN_NOTE + " Distinct entries at the very same file:line:col have no documented relative position (any order accepted).",
        "DESIGN.md section 4, C16"),
    "C17": (
        "property-based testing: printed rows zipped with the invocation log (label = rendering of the received value / const / type), args evaluated once; twin level over sorts, reversals and filters keeping strict subsets of the arguments",
        "Generated crates in which most benchmarks take args (also combined with types / consts) x 3 sorts x 2 directions x filters x thread lists: the sequence of printed rows (parsed back) is zipped with the sequence of body invocations, which log the argument value, const label and type label they actually received; every pair must agree, and each args expression is evaluated exactly once per process and shared by all generic instantiations. Exploration only.",
        TWIN_NOTE + " The macro-generated glue for the individual argument iterator kinds is exercised on compiled programs only where the e3 groups run (see evidence). Argument labels are distinct within a list: which of two arguments with the same rendering a row runs is not decided (seeded change C17-F is a documented miss, DESIGN.md section 12, round 7).",
        "DESIGN.md section 4, C17"),
    "C18": (
        "property-based testing: interval-membership oracle on the printed string in exact big-integer arithmetic (no floats, no division), canonical-form rules, boundary generators",
        "Every printed string is parsed back; canonical-form rules (no exponent, no trailing zeros, max(0,4-d) decimals, integer digits in full) are checked and the exact input value must lie in the truncation interval the string claims, in the largest unit not exceeding it. Values are generated uniformly by bit length and densely (+-2000 ps / +-6 ulp) around every unit and digit boundary; float formatters get a relative 2^-50 allowance for the digits only. Exploration only.",
        "Trusts the cfg(divan_verif) wrappers around the production Display impls. Only the default precision/width the table uses is judged for value; other widths/precisions for panics and padding.",
        "DESIGN.md section 4, C18"),
    "C19": (
        "property-based testing: trace model of the doubling rule replayed over logged readings and observed round sizes; per-sample data of reported rounds compared with their own timed sections",
        "Generated cost models (constant incl. 0 and the exact doubling boundaries, growing, noisy, zero-then-constant) relative to a supplied precision, T 1..3 with skew, max_time cutting tuning short, allocation scripts and per-input counters in discarded rounds; the checker replays size_1 = 1, double while floor(slowest/p) <= 100, freeze otherwise, stop rule as C04, and requires the reported size, samples, durations, allocation and counter data to be exactly those of the rounds from the freezing round on. Exploration only.",
        LOOP_NOTE + " u32 overflow of the doubling is out of reach.",
        "DESIGN.md section 4, C19"),
    "C20": (
        "property-based testing with a strict output parser: the captured stdout of the real runner is parsed back (grammar prefix* glyph name cells / continuation rows); parsed tree = expected tree, cells = production-formatted reference values under a scripted clock; continuation rows of one leaf: injected statistics over every combination of present / absent counter rows and allocation sections, printed rows compared with the rows the computed statistics call for",
        "Generated crates x {bench, test, list} x ignore flags x filters x runner options x byte format: the real output must parse with a strict parser (│ exactly under ancestors with later siblings, ╰─ exactly on last children, continuation rows carrying the bar iff their leaf is not last), show exactly the selected groups, benchmarks, argument cases and t=N branches once each, mark skipped benchmarks (ignored) without running them, and in bench mode every statistics row must show the closed-form fastest/slowest/median/mean/samples/iters of a scripted clock whose k-th sample lasts 100+10*(k mod 3) ns, with one throughput row per effective counter computed from that column's time. Exploration only.",
        TWIN_NOTE + " Sibling order is judged by C16.",
        "DESIGN.md section 4, C20"),
}

NOT_YET = {
}

def main():
    checks = []
    fuzzed = {}
    for l in open("/verif/harness/fuzz/targets.txt"):
        if l.strip():
            fuzzed.setdefault(l.split()[0], []).append(l.split()[2])
    for pid in sorted(CHECKS):
        tech, text, note, ref = CHECKS[pid]
        if pid in fuzzed:
            tech += "; thorough tier adds coverage-guided fuzzing (libFuzzer targets " + ", ".join(fuzzed[pid]) + ": fuzzer bytes drive the same generator, same oracle in-target, in-target shrinking, violation confirmed by the ordinary harness before it is reported)"
            ref += "; section 14 (E4)"
        checks.append({
            "property_id": pid,
            "quick_cmd": f"./check {pid} --tier quick",
            "thorough_cmd": f"./check {pid} --tier thorough",
            "evidence_file": f"/verif/evidence/{pid}.json",
            "replay_cmd_template": f"./check {pid} --replay {{path}}",
            "engine": "vcheck",
            "level_claimed": {"category": "exploration", "text": text, "design_ref": ref},
            "level_note": note,
            "technique": tech,
        })
    all_ids = [json.loads(l)["id"] for l in open("/verif/properties.jsonl")]
    not_applicable = []
    for pid in all_ids:
        if pid not in CHECKS:
            not_applicable.append({
                "property_id": pid,
                "reason": NOT_YET.get(pid, "check not built yet in this revision of /verif (planned, see DESIGN.md section 4); nothing is claimed for it"),
            })
    manifest = {
        "version": 1,
        "setup_cmd": "cd /verif/harness && CARGO_NET_OFFLINE=true cargo build --release --offline",
        "hooks": {
            "guard": "--cfg divan_verif",
            "enable": "RUSTFLAGS / [build] rustflags = [\"--cfg\", \"divan_verif\"] in /verif/harness/.cargo/config.toml; divan is a path dependency on /repo, so every check rebuilds it from the current working tree",
            "baseline_off_cmd": "cd /repo && cargo nextest run --workspace --no-fail-fast --tool-config-file pb:/w/lib/nextest.toml --profile pb --test-threads 8 --offline || cargo test --workspace --no-fail-fast --offline",
            "source_commits": [l.split()[0] for l in HOOK_COMMITS],
            "add_only": True,
        },
        "engines": [
            {"name": "vcheck", "path": "/verif/harness", "serves_properties": sorted(CHECKS),
             "kind_free_text": "Rust binary driving proptest TestRunner (fixed seeds from VERIF_SEED, 16 shard processes), small-scope enumeration, a deterministic thread scheduler for generated schedules, libFuzzer campaigns (cargo-fuzz, thorough tier) over the same generators and oracles, reference models/oracles per property, shrinking to JSON replay files"},
        ],
        "checks": checks,
        "not_applicable": not_applicable,
        "notes": "Known findings live in /verif/known_findings.json; replay files under /verif/replay/<ID>/{golden,found}. Exit codes: 0 held, 1 violation (VIOLATION line), 2 inconclusive/infrastructure.",
    }
    json.dump(manifest, open("/verif/MANIFEST.json", "w"), indent=1)
    print("wrote MANIFEST.json with", len(checks), "checks;", len(not_applicable), "not claimed")

if __name__ == "__main__":
    main()
