#!/bin/bash
# Re-runs every registered quick check on the unchanged tree so that the committed evidence files come from clean runs.
cd /verif
[ -z "$(git -C /repo status --porcelain --untracked-files=no)" ] || { echo "/repo dirty"; exit 2; }
for id in $(python3 -c "import json;print(' '.join(c['property_id'] for c in json.load(open('MANIFEST.json'))['checks']))"); do
  VERIF_SEED=${VERIF_SEED:-0} ./check $id --tier quick | tail -1
done
python3-vt - <<'PY'
import json,jsonschema,glob
sch=json.load(open('/root/.vp/EVIDENCE.schema.json'))
for f in sorted(glob.glob('/verif/evidence/*.json')):
    jsonschema.validate(json.load(open(f)),sch)
print("all evidence files valid")
PY
