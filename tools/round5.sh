#!/bin/bash
# usage: tools/round5.sh verify <ID> <A|B> "<demo cmd>"      (parallel-safe: works in /tmp/seed5/<ID>)
#        tools/round5.sh keep   <ID> <A|B> <AS> "<demo cmd>" "<needs>"   (collect + seedrun; serial, uses /repo)
export SEED_BASE=${SEED_BASE:-/tmp/seed6}
cmd=$1; shift
case $cmd in
verify) /verif/tools/verify_seed.sh "$1" "$2" "$3" ;;
keep) /verif/tools/collect_seed.sh "$1" "$2" "$4" "$5" "$3" && /verif/tools/seedrun.sh "$1-$3" ;;
esac
