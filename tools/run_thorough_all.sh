#!/bin/bash
# Runs every thorough check once on the unchanged tree (hours); log in target/thorough_all.log
cd /verif
[ -z "$(git -C /repo status --porcelain --untracked-files=no)" ] || { echo "/repo dirty"; exit 2; }
rm -rf /verif/target/evidence.bak; cp -r /verif/evidence /verif/target/evidence.bak
for id in ${@:-C01 C02 C03 C04 C05 C06 C07 C08 C09 C10 C11 C12 C13 C14 C15 C16 C17 C18 C19 C20}; do
  start=$(date +%s)
  ./check $id --tier thorough > /verif/target/thorough_$id.out 2>&1; rc=$?
  echo "$id exit=$rc $(( $(date +%s) - start ))s $(grep -v KNOWN /verif/target/thorough_$id.out | tail -1 | cut -c1-160)"
  grep -E "VIOLATION|inconclusive" /verif/target/thorough_$id.out | cut -c1-300 | head -5
  cp /verif/evidence/$id.json /verif/target/thorough_evidence_$id.json
done
rm -rf /verif/evidence; mv /verif/target/evidence.bak /verif/evidence
