#!/bin/bash
# usage: tools/mut.sh <ID>[,<ID>...] <repo-relative-file> <python-regex-old> <new>   (ad-hoc sensitivity probe; always reverts)
ids="$1"; file="$2"; old="$3"; new="$4"
cd /repo || exit 2
[ -z "$(git status --porcelain --untracked-files=no)" ] || { echo "/repo dirty"; exit 2; }
python3 - "$file" "$old" "$new" <<'PY'
import sys,re
f,old,new=sys.argv[1:4]
s=open(f).read()
n=len(re.findall(old,s,flags=re.S))
if n!=1:
    print("pattern matches",n,"times"); sys.exit(3)
open(f,'w').write(re.sub(old,lambda m:new,s,count=1,flags=re.S))
PY
rc=$?
if [ $rc -ne 0 ]; then git checkout -- .; exit $rc; fi
git --no-pager diff --stat | tail -1
cd /verif
rm -rf /verif/target/evidence.bak; cp -r /verif/evidence /verif/target/evidence.bak
for id in ${ids//,/ }; do
  ./check "$id" --tier quick | grep -E "VIOLATION|KNOWN|inconclusive|violation\(s\)" | head -6
  echo "exit=${PIPESTATUS[0]} ($id)"
  rm -rf /verif/replay/$id/found
done
git -C /repo checkout -- .
rm -rf /verif/evidence; mv /verif/target/evidence.bak /verif/evidence
