#!/bin/bash
# usage: tools/seedrun.sh <seed-id>... | all     runs the seeded change's property check (quick) against each seeded patch; always reverts /repo
cd /verif
[ -z "$(git -C /repo status --porcelain --untracked-files=no)" ] || { echo "/repo dirty"; exit 2; }
seeds="$@"; [ "$seeds" = "all" ] && seeds=$(ls seeded | grep -E '^C[0-9]+-')
for s in $seeds; do
  prop=$(python3 -c "import json;print(json.load(open('/verif/seeded/$s/meta.json'))['breaks_property'])")
  also=$(python3 -c "import json;print(' '.join(json.load(open('/verif/seeded/$s/meta.json')).get('also_check',[])))")
  git -C /repo apply /verif/seeded/$s/patch.diff || { echo "$s: patch does not apply"; continue; }
  rm -rf /verif/target/evidence.bak; cp -r /verif/evidence /verif/target/evidence.bak
  for p in $prop $also; do
    out=$(./check $p --tier quick 2>&1); rc=$?
    sig=$(echo "$out" | grep -E "signature=" | head -2 | sed -E 's/.*group=([^ ]+) signature=([^ ]+).*/\1:\2/' | paste -sd, )
    echo "$s check=$p exit=$rc $sig"
    rm -rf /verif/replay/$p/found
  done
  git -C /repo checkout -- .
  rm -rf /verif/evidence; mv /verif/target/evidence.bak /verif/evidence
done
