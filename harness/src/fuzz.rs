//! Entry point for libFuzzer targets: the fuzzer's bytes are the random
//! stream of a group's proptest generator (`RngAlgorithm::PassThrough`), the
//! group's oracle runs on the generated case, and a violation that is not a
//! known finding aborts the process (libFuzzer then saves the input).

use std::{cell::RefCell, time::Instant};

use crate::{
    engine::{install_panic_hook, load_known_findings, Ctx, Tier, Verdict},
    galloc,
    groups::Groups,
    props,
};

thread_local! {
    static CTX: RefCell<Option<Ctx>> = const { RefCell::new(None) };
}

fn with_ctx<R>(property: &str, f: impl FnOnce(&Ctx) -> R) -> R {
    CTX.with(|c| {
        let mut c = c.borrow_mut();
        if c.is_none() {
            install_panic_hook();
            galloc::set_bypass(true);
            *c = Some(Ctx {
                property: property.to_string(),
                tier: Tier::Thorough,
                seed: 0,
                shard: 0,
                nshards: 1,
                known: load_known_findings(),
                result: Default::default(),
                journal: None,
                strict: false,
                start: Instant::now(),
            });
        }
        f(c.as_ref().unwrap())
    })
}

/// One fuzz iteration. Panics (after printing the case as JSON) on a violation.
pub fn one(property: &'static str, group: &'static str, data: &[u8]) {
    let prop = props::all().iter().find(|p| p.id == property).expect("property");
    let outcome = with_ctx(property, |ctx| {
        let mut g = Groups::fuzz(ctx, group, data, false);
        (prop.groups)(&mut g);
        let known = |sig: &str| ctx.is_known(sig).is_some();
        g.take_fuzz_outcome().map(|o| (o.case, o.verdict, known))
            .map(|(case, verdict, known)| match verdict {
                Some(Verdict::Fail { signature, message }) if !known(&signature) => Some((case, signature, message)),
                _ => None,
            })
            .flatten()
    });
    if let Some((case, signature, message)) = outcome {
        eprintln!("VCHECK-FUZZ-VIOLATION property={property} group={group} signature={signature}\n{message}");
        // The campaign driver (`vcheck run --tier thorough`) picks the case up
        // from this directory, replays it in the ordinary harness and reports it.
        if let Ok(dir) = std::env::var("VCHECK_FUZZ_OUT") {
            let rf = crate::engine::ReplayFile {
                property: property.to_string(),
                group: group.to_string(),
                signature: signature.clone(),
                message: message.clone(),
                case: case.clone(),
                kind: "found".into(),
            };
            let text = serde_json::to_string_pretty(&rf).unwrap_or_default();
            let name = format!("{property}-{group}-{:016x}.json", crate::engine::fnv64(text.as_bytes()));
            let _ = std::fs::write(std::path::Path::new(&dir).join(name), text);
        } else {
            eprintln!("case: {case}");
        }
        std::process::abort();
    }
}

/// Decodes an input file into the case it generates (for replay files).
pub fn decode(property: &str, group: &str, data: &[u8]) -> Option<serde_json::Value> {
    let prop = props::all().iter().find(|p| p.id == property)?;
    with_ctx(property, |ctx| {
        let mut g = Groups::fuzz(ctx, group, data, true);
        (prop.groups)(&mut g);
        g.take_fuzz_outcome().map(|o| o.case)
    })
}
