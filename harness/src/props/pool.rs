//! Shared driver for C06 / C07: runs a generated history of broadcasts on
//! divan's real thread pool under the deterministic scheduler with a generated
//! schedule, and returns the event log plus the scheduler's report.

use std::{
    cell::UnsafeCell,
    sync::Mutex,
};

use divan::__verif::{
    sched::{self, Config, Report, Stamp},
    shim, Pool,
};
use proptest::prelude::*;
use serde::{Deserialize, Serialize};

use crate::galloc;

#[derive(Clone, Copy, Debug, PartialEq, Eq, Serialize, Deserialize)]
pub enum Kind {
    Broadcast,
    ParExtend,
}

#[derive(Clone, Debug, PartialEq, Eq, Serialize, Deserialize)]
pub struct Bcast {
    /// Auxiliary threads.
    pub n: u8,
    /// Indices whose call panics.
    pub panics: Vec<u8>,
    pub kind: Kind,
    /// Explicit yields inside each task call.
    pub yields: u8,
    /// A stale `unpark` token is pending for the caller before this broadcast.
    pub stale_token: bool,
    /// par_extend only: clear the (reused) result vector first, keeping its capacity.
    pub clear_first: bool,
    /// Index 0 panics with a payload whose destructor panics too.
    pub payload_drop_panics: bool,
    /// The broadcast is issued from another (scheduled) thread while the body
    /// thread waits for it.
    #[serde(default)]
    pub other_caller: bool,
}

#[derive(Clone, Debug, PartialEq, Eq, Serialize, Deserialize)]
pub struct PoolCase {
    pub history: Vec<Bcast>,
    pub schedule: Vec<u32>,
    pub spurious: Vec<bool>,
    /// Drop the pool at the end of the body (C07 checks that workers exit).
    pub drop_pool: bool,
}

#[derive(Clone, Debug)]
pub enum PEv {
    Before { b: usize, stamp: Stamp, spawned: u32, os: std::thread::ThreadId },
    Call { b: usize, index: usize, stamp: Stamp, os: std::thread::ThreadId },
    Ret { b: usize, index: usize, stamp: Stamp, panicked: bool },
    After { b: usize, stamp: Stamp, panicked: bool, spawned: u32 },
}

pub struct PoolOutcome {
    pub report: Report,
    pub events: Vec<PEv>,
    /// Result vectors after each par_extend: `(broadcast, old_len, vec)`.
    pub vectors: Vec<(usize, usize, Vec<Option<u64>>)>,
    /// Values found in the plain per-index cells after each broadcast.
    pub cells: Vec<Vec<u64>>,
    pub caller_os: std::thread::ThreadId,
    /// Threads the harness itself spawned under the scheduler (other callers).
    pub harness_spawned: u32,
}

struct PanicOnDrop;
impl Drop for PanicOnDrop {
    fn drop(&mut self) {
        if !std::thread::panicking() {
            panic!("payload destructor panics");
        }
    }
}

pub fn result_value(b: usize, index: usize) -> u64 {
    (b as u64) * 1000 + index as u64 + 1
}

fn enter() {
    galloc::internal_enter();
}
fn exit() {
    galloc::internal_exit();
}

struct Cells(Vec<Vec<UnsafeCell<u64>>>);
// Only one scheduled thread runs at a time.
unsafe impl Sync for Cells {}

impl Cells {
    fn set(&self, b: usize, index: usize, v: u64) {
        let row = &self.0[b];
        unsafe { *row[index.min(row.len() - 1)].get() = v };
    }

    fn row(&self, b: usize) -> Vec<u64> {
        self.0[b].iter().map(|cell| unsafe { *cell.get() }).collect()
    }
}

/// The scheduler has a fixed number of thread slots (they are not reused):
/// the body, one per broadcast issued from another caller thread, and the
/// pool's workers. A case that needs more cannot be run faithfully (a spawn
/// would fail for lack of a slot, which is the harness's limit, not divan's).
pub fn exceeds_thread_capacity(c: &PoolCase) -> bool {
    let callers = c.history.iter().filter(|b| b.other_caller).count();
    let workers = c.history.iter().map(|b| b.n as usize).max().unwrap_or(0);
    1 + callers + workers > divan::__verif::sched::MAX_THREADS
}

pub fn run_pool(c: &PoolCase) -> PoolOutcome {
    sched::set_internal_hooks(Some((enter, exit)));
    let events: Mutex<Vec<PEv>> = Mutex::new(Vec::with_capacity(256));
    let vectors: Mutex<Vec<(usize, usize, Vec<Option<u64>>)>> = Mutex::new(Vec::new());
    let cells = Cells(c.history.iter().map(|b| (0..=b.n as usize).map(|_| UnsafeCell::new(0)).collect()).collect());
    let cells_seen: Mutex<Vec<Vec<u64>>> = Mutex::new(Vec::new());
    let caller_os = std::thread::current().id();
    let harness_spawned = std::cell::Cell::new(0u32);
    let push = |e: PEv| galloc::internal(|| events.lock().unwrap().push(e));

    let report = sched::run(Config { schedule: c.schedule.clone(), spurious: c.spurious.clone(), step_budget: 20_000 }, || {
        let pool = Pool::new();
        let mut vec: Vec<Option<u64>> = Vec::new();
        for (b, bc) in c.history.iter().enumerate() {
            let task = |index: usize| {
                push(PEv::Call { b, index, stamp: sched::stamp().unwrap(), os: std::thread::current().id() });
                // A plain (non-atomic) write the caller reads afterwards.
                cells.set(b, index, result_value(b, index));
                for _ in 0..bc.yields {
                    sched::yield_now();
                }
                let panics = bc.panics.contains(&(index as u8));
                push(PEv::Ret { b, index, stamp: sched::stamp().unwrap(), panicked: panics });
                if panics {
                    if index == 0 && bc.payload_drop_panics {
                        std::panic::panic_any(PanicOnDrop);
                    }
                    panic!("task panic");
                }
            };
            let mut one_broadcast = || {
                if bc.stale_token {
                    sched::inject_stale_token();
                }
                push(PEv::Before { b, stamp: sched::stamp().unwrap(), spawned: sched::spawned_so_far() - harness_spawned.get(), os: std::thread::current().id() });
                if bc.kind == Kind::ParExtend && bc.clear_first {
                    vec.clear();
                }
                let old_len = vec.len();
                let r = std::panic::catch_unwind(std::panic::AssertUnwindSafe(|| match bc.kind {
                    Kind::Broadcast => pool.broadcast(bc.n as usize, task),
                    Kind::ParExtend => {
                        pool.par_extend(&mut vec, bc.n as usize, |index| {
                            task(index);
                            result_value(b, index)
                        });
                    }
                }));
                if bc.kind == Kind::ParExtend {
                    galloc::internal(|| vectors.lock().unwrap().push((b, old_len, vec.clone())));
                }
                let panicked = match r {
                    Ok(()) => false,
                    Err(payload) => {
                        if payload.is::<sched::SchedAbort>() {
                            std::panic::resume_unwind(payload);
                        }
                        std::mem::forget(payload);
                        true
                    }
                };
                push(PEv::After { b, stamp: sched::stamp().unwrap(), panicked, spawned: sched::spawned_so_far() - harness_spawned.get() });
                let seen: Vec<u64> = cells.row(b);
                galloc::internal(|| cells_seen.lock().unwrap().push(seen));
            };
            if bc.other_caller {
                // Run the broadcast on a freshly spawned scheduled thread and
                // wait for it over a (scheduled) rendezvous channel.
                harness_spawned.set(harness_spawned.get() + 1);
                let (tx, rx) = shim::sync::mpsc::sync_channel::<()>(0);
                let f: Box<dyn FnMut() + '_> = Box::new(&mut one_broadcast);
                // SAFETY: the body thread waits for completion below, like a scoped thread.
                let f: Box<dyn FnMut() + Send + 'static> = unsafe { std::mem::transmute(f) };
                let mut f = f;
                let spawned = shim::thread::Builder::new().name(format!("caller-{b}")).spawn(move || {
                    crate::galloc::set_bypass(true);
                    f();
                    let _ = tx.send(());
                });
                if spawned.is_ok() {
                    let _ = rx.recv();
                }
            } else {
                one_broadcast();
            }
        }
        if c.drop_pool {
            drop(pool);
        } else {
            std::mem::forget(pool);
        }
    });
    sched::set_internal_hooks(None);
    PoolOutcome { report, events: events.into_inner().unwrap(), vectors: vectors.into_inner().unwrap(), cells: cells_seen.into_inner().unwrap(), caller_os, harness_spawned: harness_spawned.get() }
}

// ---------------------------------------------------------------------------
// Generators

pub fn bcast(max_n: u8) -> impl Strategy<Value = Bcast> {
    (0u8..=max_n).prop_flat_map(|n| {
        (
            Just(n),
            proptest::collection::vec(0u8..=n, 0..=2).prop_map(|mut v| {
                v.sort_unstable();
                v.dedup();
                v
            }),
            prop_oneof![Just(Kind::Broadcast), Just(Kind::ParExtend)],
            prop_oneof![3 => Just(0u8), 2 => 1u8..=3],
            prop::bool::weighted(0.15),
            prop::bool::weighted(0.3),
            prop::bool::weighted(0.3),
            prop::bool::weighted(0.12),
        )
            .prop_map(|(n, panics, kind, yields, stale_token, clear_first, payload_drop_panics, other_caller)| Bcast {
                n,
                panics: if prop_flip(&panics) { panics } else { Vec::new() },
                kind,
                yields,
                stale_token,
                clear_first,
                payload_drop_panics,
                other_caller,
            })
    })
}

/// Half of the broadcasts have no panics at all.
fn prop_flip(v: &[u8]) -> bool {
    v.iter().map(|&x| x as u32).sum::<u32>() % 2 == 0
}

/// A schedule: mostly "keep running", a few preemptions (PCT style), or dense
/// random choices.
pub fn schedule(len: usize) -> impl Strategy<Value = Vec<u32>> {
    prop_oneof![
        1 => Just(Vec::new()),
        4 => (proptest::collection::vec((0usize..len, 1u32..=4), 0..=3)).prop_map(move |points| {
            let mut v = vec![0u32; len];
            for (pos, choice) in points {
                v[pos] = choice;
            }
            while v.last() == Some(&0) {
                v.pop();
            }
            v
        }),
        3 => proptest::collection::vec(prop_oneof![3 => Just(0u32), 1 => 1u32..=4], 0..=len),
        2 => proptest::collection::vec(0u32..=4, 0..=len),
    ]
}

pub fn pool_case(max_history: usize, max_n: u8) -> impl Strategy<Value = PoolCase> {
    (proptest::collection::vec(bcast(max_n), 1..=max_history), schedule(160), proptest::collection::vec(prop::bool::weighted(0.3), 0..=6)).prop_map(
        |(history, schedule, spurious)| PoolCase { history, schedule, spurious, drop_pool: true },
    )
}

/// All choice vectors with at most `max_preemptions` non-zero entries within
/// the first `len` positions, non-zero values in 1..=`max_choice`.
pub fn enumerate_schedules(len: usize, max_preemptions: usize, max_choice: u32) -> Vec<Vec<u32>> {
    let mut out = vec![Vec::new()];
    fn rec(out: &mut Vec<Vec<u32>>, cur: &mut Vec<(usize, u32)>, start: usize, len: usize, left: usize, max_choice: u32) {
        if left == 0 {
            return;
        }
        for pos in start..len {
            for ch in 1..=max_choice {
                cur.push((pos, ch));
                let mut v = vec![0u32; pos + 1];
                for &(p, c) in cur.iter() {
                    v[p] = c;
                }
                out.push(v);
                rec(out, cur, pos + 1, len, left - 1, max_choice);
                cur.pop();
            }
        }
    }
    rec(&mut out, &mut Vec::new(), 0, len, max_preemptions, max_choice);
    out
}
