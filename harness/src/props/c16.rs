//! C16 — output order is the documented total order for each --sort attribute.

use std::cmp::Ordering;

use divan::__verif::pure;
use proptest::prelude::*;
use serde::{Deserialize, Serialize};

use super::{
    twin::{self, *},
    twingen,
    twinref::{self, *},
    PropDef,
};
use crate::{
    engine::{catch, classify, Verdict},
    groups::Groups,
    vensure,
};

pub const DEF: PropDef = PropDef {
    id: "C16",
    groups,
    rule: "pure: pairs and triples of names over {letters, digit runs with leading zeros, punctuation around '0'..'9' in ASCII order, non-ASCII}; argument-name lists that are all-integer (u128 / i128 range, negatives), all-float (to_string forms, negatives, no NaN) or all non-numeric strings, length 0..=12, x {kind, name, location} x {sort, sortr}; tree: generated sibling sets (benchmarks and groups, custom names, generic consts of usize / i32 / char / bool, locations with ties in file / line / col on purpose) x 3 attributes x 2 directions, printed by the real runner and parsed back; \
           non-trivial = a list / sibling set of length >= 3 whose documented order differs from both declaration order and plain lexicographic order; distinct by serialized case.",
    assumptions: &[
        "where all three keys of two siblings tie, any relative order is accepted",
        "mixed argument lists (numbers and non-numeric strings in one list) have no documented order: only permutation and no panic are required there and they are not generated for the order clause",
        "printed sibling order is compared with a reference comparator written from the statement (non-decreasing check), not with a reference sort, so ties never raise an alarm",
    ],
    journal: true,
    timeout_s: (300, 3600),
    nshards: None,
};

// ---------------------------------------------------------------------------
// Pure level

fn name() -> impl Strategy<Value = String> {
    prop_oneof![
        4 => proptest::collection::vec(prop_oneof![
            3 => "[a-c]{1,2}",
            3 => "[0-9]{1,3}",
            1 => "0{1,3}[0-9]{0,2}",
            1 => Just("/".to_string()),
            1 => Just(":".to_string()),
            1 => Just("-".to_string()),
            1 => Just("<".to_string()),
            1 => Just(">".to_string()),
            1 => Just("é".to_string()),
            1 => Just("_".to_string()),
            1 => "[0-9]{18,24}",
        ], 0..=4).prop_map(|v| v.concat()),
        1 => Just("A<4>".to_string()),
        1 => Just("A<16>".to_string()),
        1 => Just("A<8>".to_string()),
    ]
}

fn check_natural(names: &Vec<String>) -> Verdict {
    for a in names {
        for b in names {
            let got = pure::natural_cmp(a, b);
            let want = natural_cmp_ref(a, b);
            vensure!(got == want, "natural-order", "natural_cmp({a:?}, {b:?}) = {got:?}, natural order (digit runs by value, else bytes) gives {want:?}");
            vensure!(got == pure::natural_cmp(b, a).reverse(), "not-antisymmetric", "natural_cmp({a:?}, {b:?}) = {got:?} but reversed arguments give {:?}", pure::natural_cmp(b, a));
        }
        vensure!(pure::natural_cmp(a, a) == Ordering::Equal, "not-reflexive", "natural_cmp({a:?}, {a:?}) != Equal");
    }
    for a in names {
        for b in names {
            for c in names {
                if pure::natural_cmp(a, b) != Ordering::Greater && pure::natural_cmp(b, c) != Ordering::Greater {
                    vensure!(pure::natural_cmp(a, c) != Ordering::Greater, "not-transitive", "{a:?} <= {b:?} <= {c:?} but {a:?} > {c:?}");
                }
            }
        }
    }
    let mut lex = names.clone();
    lex.sort();
    let mut nat = names.clone();
    nat.sort_by(|a, b| natural_cmp_ref(a, b));
    Verdict::pass(names.len() >= 3 && nat != lex && nat != *names)
}

#[derive(Clone, Debug, Serialize, Deserialize)]
struct ArgCase {
    names: Vec<String>,
    attr: u8,
    reverse: bool,
}

fn check_args(c: &ArgCase) -> Verdict {
    let refs: Vec<&str> = c.names.iter().map(|s| s.as_str()).collect();
    let order = match catch(|| pure::sort_arg_names(c.attr, c.reverse, &refs)) {
        Ok(o) => o,
        Err(e) => return Verdict::fail("sort-panic", format!("sorting {:?} by attribute {} panicked: {e}", c.names, c.attr)),
    };
    let mut sorted_idx = order.clone();
    sorted_idx.sort_unstable();
    vensure!(sorted_idx == (0..c.names.len()).collect::<Vec<_>>(), "not-a-permutation", "sorting {:?} returned indices {order:?}", c.names);
    let items: Vec<(String, usize)> = c.names.iter().cloned().enumerate().map(|(i, n)| (n, i)).collect();
    for w in order.windows(2) {
        let (a, b) = (&items[w[0]], &items[w[1]]);
        let want = arg_cmp_ref(a, b, c.attr);
        let bad = if c.reverse { want == Ordering::Less } else { want == Ordering::Greater };
        if bad {
            let kind = if c.names.iter().all(|n| n.parse::<i128>().is_ok() || n.parse::<u128>().is_ok()) {
                "integers"
            } else if c.names.iter().all(|n| n.parse::<f64>().is_ok()) {
                "floats"
            } else {
                "strings"
            };
            return Verdict::fail(
                format!("arg-order:{kind}:attr={}", c.attr),
                format!("arguments {:?} sorted by attribute {} (reverse={}) come out as {:?}: {:?} is shown before {:?}", c.names, c.attr, c.reverse, order.iter().map(|&i| &c.names[i]).collect::<Vec<_>>(), a.0, b.0),
            );
        }
    }
    // Pairwise laws on the real comparator.
    for i in 0..c.names.len() {
        for j in 0..c.names.len() {
            let got = pure::cmp_arg_names(c.attr, &refs, i, j);
            let back = pure::cmp_arg_names(c.attr, &refs, j, i);
            vensure!(got == back.reverse(), "arg-cmp-not-antisymmetric", "cmp({:?}, {:?}) = {got:?} but reversed {back:?}", c.names[i], c.names[j]);
        }
    }
    let mut declared = c.names.clone();
    let mut lex = c.names.clone();
    lex.sort();
    let mut want = items.clone();
    want.sort_by(|a, b| arg_cmp_ref(a, b, c.attr));
    let want: Vec<String> = want.into_iter().map(|x| x.0).collect();
    declared.truncate(c.names.len());
    Verdict::pass(c.names.len() >= 3 && want != lex && want != declared)
}

fn arg_names() -> impl Strategy<Value = Vec<String>> {
    let ints = proptest::collection::vec(prop_oneof![3 => (0i128..=30).prop_map(|x| x.to_string()), 2 => (-30i128..=30).prop_map(|x| x.to_string()), 2 => (0u64..=100_000).prop_map(|x| x.to_string()), 1 => any::<i128>().prop_map(|x| x.to_string()), 1 => any::<u128>().prop_map(|x| x.to_string()),
        // Clusters closer together than the f64 spacing, around the type
        // boundaries (u128::MAX, 2^127, 2^64, 2^53, i128::MIN).
        2 => (0usize..=5, 0u32..=6).prop_map(|(b, d)| match b {
            0 => (u128::MAX - d as u128).to_string(),
            1 => ((1u128 << 127) + d as u128 - 3).to_string(),
            2 => ((1u128 << 64) + d as u128 - 3).to_string(),
            3 => ((1u128 << 53) + d as u128 - 3).to_string(),
            4 => (i128::MIN + d as i128).to_string(),
            _ => ((1u128 << 100) + d as u128).to_string(),
        })], 0..=12);
    let floats = proptest::collection::vec(prop_oneof![(-2000i32..=2000).prop_map(|x| (x as f64 / 8.0).to_string()), Just("inf".to_string()), Just("-inf".to_string()), Just("1e3".to_string()), Just("0.5".to_string()), Just("10.25".to_string()), Just("9.75".to_string())], 0..=10);
    let strs = proptest::collection::vec(prop_oneof!["[a-d][a-d0-9]{0,4}", Just("x10".to_string()), Just("x9".to_string()), Just("x09".to_string()), Just("é1".to_string()), Just("k-2".to_string()), Just("k-10".to_string())], 0..=12);
    prop_oneof![4 => ints, 2 => floats, 4 => strs].prop_map(|v| {
        let mut seen = std::collections::HashSet::new();
        v.into_iter().filter(|x| seen.insert(x.clone())).collect()
    })
}

/// Mixed lists (numbers and non-numeric strings together): the statement fixes
/// no order, only "permutes and never panics".
fn check_args_mixed(c: &ArgCase) -> Verdict {
    let refs: Vec<&str> = c.names.iter().map(|s| s.as_str()).collect();
    let order = match catch(|| pure::sort_arg_names(c.attr, c.reverse, &refs)) {
        Ok(o) => o,
        Err(e) => return Verdict::fail("sort-panic:mixed", format!("sorting the mixed argument list {:?} by attribute {} panicked: {e}", c.names, c.attr)),
    };
    let mut sorted_idx = order.clone();
    sorted_idx.sort_unstable();
    vensure!(sorted_idx == (0..c.names.len()).collect::<Vec<_>>(), "not-a-permutation", "sorting {:?} returned indices {order:?}", c.names);
    // The comparator is a total preorder on every list (what `sort_by`
    // requires): antisymmetric, transitive, and the result is ordered by it.
    let n = refs.len();
    let cmp = |i: usize, j: usize| pure::cmp_arg_names(c.attr, &refs, i, j);
    for i in 0..n {
        for j in 0..n {
            let (ij, ji) = (cmp(i, j), cmp(j, i));
            vensure!(ij == ji.reverse(), "mixed:not-antisymmetric", "cmp({:?}, {:?}) = {ij:?} but cmp({:?}, {:?}) = {ji:?} (attribute {})", refs[i], refs[j], refs[j], refs[i], c.attr);
        }
    }
    if n <= 14 {
        for i in 0..n {
            for j in 0..n {
                if cmp(i, j) == std::cmp::Ordering::Greater {
                    continue;
                }
                for k in 0..n {
                    if cmp(j, k) != std::cmp::Ordering::Greater {
                        let strict = cmp(i, j) == std::cmp::Ordering::Less || cmp(j, k) == std::cmp::Ordering::Less;
                        let ik = cmp(i, k);
                        vensure!(
                            ik != std::cmp::Ordering::Greater && (!strict || ik == std::cmp::Ordering::Less),
                            "mixed:not-transitive",
                            "{:?} <= {:?} <= {:?} but cmp({:?}, {:?}) = {ik:?} (attribute {})",
                            refs[i],
                            refs[j],
                            refs[k],
                            refs[i],
                            refs[k],
                            c.attr
                        );
                    }
                }
            }
        }
    }
    for w in order.windows(2) {
        let o = cmp(w[0], w[1]);
        let bad = if c.reverse { o == std::cmp::Ordering::Less } else { o == std::cmp::Ordering::Greater };
        vensure!(!bad, "mixed:not-sorted", "sorted order places {:?} before {:?} (attribute {}, reverse {})", refs[w[0]], refs[w[1]], c.attr, c.reverse);
    }
    let numeric = c.names.iter().filter(|n| n.parse::<f64>().is_ok()).count();
    Verdict::pass(numeric > 0 && numeric < c.names.len() && c.names.len() >= 3)
}

fn mixed_names() -> impl Strategy<Value = Vec<String>> {
    proptest::collection::vec(
        prop_oneof![
            (0i64..=30).prop_map(|x| x.to_string()),
            (-30i64..=30).prop_map(|x| x.to_string()),
            (-200i32..=200).prop_map(|x| (x as f64 / 8.0).to_string()),
            Just("1e1".to_string()),
            Just("5x".to_string()),
            Just("9".to_string()),
            Just("inf".to_string()),
            Just("-inf".to_string()),
            Just("nan".to_string()),
            Just("NaN".to_string()),
            Just("+5".to_string()),
            Just("05".to_string()),
            Just("5.0".to_string()),
            Just("0x10".to_string()),
            "[a-c0-9.-]{1,4}",
        ],
        0..=40,
    )
}

// ---------------------------------------------------------------------------
// Tree level

#[derive(Clone, Debug, Serialize, Deserialize)]
pub struct TreeCase {
    pub spec: TwinSpec,
    pub attr: u8,
}

/// Finds the reference node a printed node stands for (by display name and
/// kind among the given siblings); `None` if ambiguous or absent.
fn match_ref<'a>(refs: &'a [RNode], p: &PNode) -> Option<&'a RNode> {
    let is_parent = !p.children.is_empty();
    let mut it = refs.iter().filter(|r| r.display == p.name && !r.is_leaf() == is_parent);
    let first = it.next()?;
    if it.next().is_some() {
        return None;
    }
    Some(first)
}

fn judge_level(printed: &[PNode], refs: &[RNode], attr: u8, reverse: bool, path: &str, strict: &mut bool, interesting: &mut bool) -> Result<(), (String, String)> {
    // Order among siblings.
    let matched: Vec<Option<&RNode>> = printed.iter().map(|p| match_ref(refs, p)).collect();
    for i in 0..printed.len().saturating_sub(1) {
        if let (Some(a), Some(b)) = (matched[i], matched[i + 1]) {
            let want = sibling_cmp_ref(a, b, attr);
            if want == Ordering::Equal {
                *strict = false;
            }
            let bad = if reverse { want == Ordering::Less } else { want == Ordering::Greater };
            if bad {
                return Err((
                    format!("sibling-order:attr={attr}"),
                    format!("under {path:?} sorted by attribute {attr} (reverse={reverse}) {:?} is shown before {:?}; shown order {:?}", printed[i].name, printed[i + 1].name, printed.iter().map(|p| &p.name).collect::<Vec<_>>()),
                ));
            }
        } else {
            *strict = false;
        }
    }
    if printed.len() >= 3 {
        let shown: Vec<&String> = printed.iter().map(|p| &p.name).collect();
        let mut lex = shown.clone();
        lex.sort();
        let declared: Vec<&String> = refs.iter().map(|r| &r.display).collect();
        if shown != lex && shown != declared {
            *interesting = true;
        }
    }
    for (p, r) in printed.iter().zip(matched) {
        if let Some(r) = r {
            if !r.is_leaf() {
                judge_level(&p.children, r.children(), attr, reverse, &format!("{path}::{}", p.name), strict, interesting)?;
            }
        }
    }
    Ok(())
}

fn judge_args(printed: &[PNode], refs: &[RNode], attr: u8, reverse: bool, interesting: &mut bool) -> Result<(), (String, String)> {
    for p in printed {
        let Some(r) = refs.iter().filter(|r| r.display == p.name).next() else { continue };
        if refs.iter().filter(|x| x.display == p.name).count() > 1 {
            continue;
        }
        match &r.kind {
            RKind::Parent { children } => judge_args(&p.children, children, attr, reverse, interesting)?,
            RKind::Leaf { args: Some(args), .. } => {
                let shown: Vec<&String> = p.children.iter().map(|c| &c.name).collect();
                let mut want_set: Vec<&String> = args.iter().map(|a| &a.0).collect();
                let mut got_set = shown.clone();
                want_set.sort();
                got_set.sort();
                if want_set != got_set {
                    return Err(("args-not-a-permutation".into(), format!("arguments of {:?}: shown {shown:?}, declared {:?}", p.name, args)));
                }
                for w in p.children.windows(2) {
                    let a = args.iter().find(|x| x.0 == w[0].name).unwrap();
                    let b = args.iter().find(|x| x.0 == w[1].name).unwrap();
                    let want = arg_cmp_ref(a, b, attr);
                    let bad = if reverse { want == Ordering::Less } else { want == Ordering::Greater };
                    if bad {
                        let kind = if args.iter().all(|n| n.0.parse::<i128>().is_ok()) { "integers" } else if args.iter().all(|n| n.0.parse::<f64>().is_ok()) { "floats" } else { "strings" };
                        return Err((format!("arg-order:{kind}:attr={attr}"), format!("arguments of {:?} sorted by attribute {attr} (reverse={reverse}) are shown as {shown:?} (declared {:?})", p.name, args.iter().map(|a| &a.0).collect::<Vec<_>>())));
                    }
                }
                if args.len() >= 3 {
                    let declared: Vec<&String> = args.iter().map(|a| &a.0).collect();
                    let mut lex = declared.clone();
                    lex.sort();
                    if shown != declared && shown != lex {
                        *interesting = true;
                    }
                }
            }
            _ => {}
        }
    }
    Ok(())
}

pub fn check_tree(c: &TreeCase) -> Verdict {
    let class = format!("attr={}", c.attr);
    judge_tree_runs(c, &class, |action, reverse| {
        let cfg = RunCfg { action: action.into(), sort: c.attr, reverse, ignored: 2, ..RunCfg::default() };
        run_in_process(&c.spec, &cfg)
    })
}

/// The same through the command line and the environment: `--sort` / `--sortr`,
/// `DIVAN_SORT` / `DIVAN_SORTR`, and a flag over the environment variable of
/// the same option (parsed by the real `clap` command in this process).
#[derive(Clone, Debug, Serialize, Deserialize)]
pub struct TreeCliCase {
    pub tree: TreeCase,
    /// 0 = flag, 1 = environment variable, 2 = flag over a differing environment variable of the same option.
    pub route: u8,
    pub other_attr: u8,
}

const ATTR_NAMES: [&str; 3] = ["kind", "name", "location"];

pub fn check_tree_cli(c: &TreeCliCase) -> Verdict {
    let attr = ATTR_NAMES[c.tree.attr as usize % 3];
    let other = ATTR_NAMES[c.other_attr as usize % 3];
    let class = format!("route={} attr={}", c.route, c.tree.attr);
    judge_tree_runs(&c.tree, &class, |action, reverse| {
        let (flag, var) = if reverse { ("--sortr", "DIVAN_SORTR") } else { ("--sort", "DIVAN_SORT") };
        let mut args: Vec<String> = vec![if action == "list" { "--list".into() } else { "--test".into() }, "--include-ignored".into()];
        let mut env: Vec<(String, String)> = Vec::new();
        match c.route {
            0 => args.extend([flag.to_string(), attr.to_string()]),
            1 => env.push((var.to_string(), attr.to_string())),
            _ => {
                env.push((var.to_string(), other.to_string()));
                args.extend([flag.to_string(), attr.to_string()]);
            }
        }
        let (run, code, stderr) = twin::with_cli_in_process(|| twin::run_child(&c.tree.spec, &args, &env, "c16"))?;
        if code != 0 && run.panic.is_none() {
            return Err(format!("exit code {code} for {args:?} {env:?}: {stderr}"));
        }
        Ok(run)
    })
}

fn judge_tree_runs(c: &TreeCase, class: &str, run: impl Fn(&str, bool) -> Result<twin::TwinRun, String>) -> Verdict {
    let tree = twinref::build(&c.spec);
    let mut shown_both: Vec<Vec<PNode>> = Vec::new();
    let mut interesting = false;
    let mut strict = true;
    for reverse in [false, true] {
        let list = match run("list", reverse) {
            Ok(r) => r,
            Err(e) => return Verdict::Inconclusive(e),
        };
        if let Some(p) = &list.panic {
            return Verdict::fail("sort-panic", format!("listing sorted by attribute {} (reverse={reverse}) panicked: {p}", c.attr));
        }
        let printed = match parse_tree(&list.stdout, false) {
            Ok(p) => p,
            Err(e) => return Verdict::fail("malformed-tree", format!("{e}\n{}", list.stdout)),
        };
        if let Err((sig, msg)) = judge_level(&printed, &tree, c.attr, reverse, "", &mut strict, &mut interesting) {
            return Verdict::fail(sig, format!("{msg}\n{}", list.stdout));
        }
        // Arguments (shown by a test run).
        let test = match run("test", reverse) {
            Ok(r) => r,
            Err(e) => return Verdict::Inconclusive(e),
        };
        if let Some(p) = &test.panic {
            return Verdict::fail("sort-panic", format!("running sorted by attribute {} (reverse={reverse}) panicked: {p}", c.attr));
        }
        let printed_test = match parse_tree(&test.stdout, false) {
            Ok(p) => p,
            Err(e) => return Verdict::fail("malformed-tree", format!("{e}\n{}", test.stdout)),
        };
        if let Err((sig, msg)) = judge_args(&printed_test, &tree, c.attr, reverse, &mut interesting) {
            return Verdict::fail(sig, format!("{msg}\n{}", test.stdout));
        }
        shown_both.push(printed);
    }
    // --sortr is exactly the reverse when the keys form a strict order.
    if strict {
        fn reversed(nodes: &[PNode]) -> Vec<PNode> {
            nodes.iter().rev().map(|n| PNode { name: n.name.clone(), cells: n.cells.clone(), extra_rows: n.extra_rows.clone(), children: reversed(&n.children) }).collect()
        }
        vensure!(reversed(&shown_both[0]) == shown_both[1], "sortr-not-reverse", "--sortr is not the exact reverse of --sort for attribute {}", c.attr);
    }
    classify(class.to_string());
    Verdict::pass(interesting)
}

fn groups(g: &mut Groups) {
    g.prop("natural_cmp", 30_000, 2_000_000, || proptest::collection::vec(name(), 2..=5), check_natural);
    g.prop("arg_names", 60_000, 3_000_000, || (arg_names(), 0u8..=2, any::<bool>()).prop_map(|(names, attr, reverse)| ArgCase { names, attr, reverse }), check_args);
    g.prop("arg_names_mixed", 40_000, 2_000_000, || (mixed_names(), 0u8..=2, any::<bool>()).prop_map(|(names, attr, reverse)| ArgCase { names, attr, reverse }), check_args_mixed);
    g.enumerate(
        "arg_names_golden",
        |_| {
            let l = |v: &[&str]| v.iter().map(|s| s.to_string()).collect::<Vec<_>>();
            let mut out = Vec::new();
            for names in [l(&["10", "9", "2", "100", "1"]), l(&["-3", "10", "-20", "2"]), l(&["1.5", "-0.5", "10.25", "9.75"]), l(&["x10", "x9", "x09"]), l(&[])] {
                for attr in 0..3 {
                    for reverse in [false, true] {
                        out.push(ArgCase { names: names.clone(), attr, reverse });
                    }
                }
            }
            out
        },
        false,
        check_args,
    );
    g.prop("tree", 3_000, 150_000, || (twingen::spec_with(0.1), 0u8..=2).prop_map(|(spec, attr)| TreeCase { spec, attr }), check_tree);
    g.prop(
        "tree_cli",
        6_000,
        150_000,
        || (twingen::spec_with(0.1), 0u8..=2, 0u8..=2, 1u8..=2).prop_map(|(spec, attr, route, d)| TreeCliCase { tree: TreeCase { spec, attr }, route, other_attr: (attr + d) % 3 }),
        check_tree_cli,
    );
}
