//! C02 — only the benchmarked calls happen inside a sample's timed section.
//!
//! (a) order: per thread and round the events between the logged start and end
//! readings are only the sample's calls (and what those calls do); generation
//! and counting come before the start reading, drops after the end reading.
//! (b) allocation figures: the tally recorded for a sample equals the
//! reference tally of exactly the allocator operations the thread performed
//! between the two readings. Allocations are real (`std::alloc`) and go through
//! the profiler; harness bookkeeping bypasses it.

use proptest::prelude::*;

use super::{c01, PropDef};
use crate::{
    engine::{classify, Verdict},
    groups::Groups,
    loopdrv::*,
    loopmodel::*,
    vensure,
};

pub const DEF: PropDef = PropDef {
    id: "C02",
    groups,
    rule: "entry point x input/output shape x sample_size 0..=6 x sample_count 1..=4 x T 1..=3 x bench/test, with an allocation script (alloc / alloc_zeroed / realloc grow|shrink|same / dealloc, sizes 1..64 KiB, blocks handed between phases through a per-thread stack) per role: generator, counter, benchmarked function, output destructor, input destructor; the benchmarked function's script optionally restricted by a call mask (index mod 16) and a thread mask, so that samples without allocations precede samples with some; \
           non-trivial = the generator (or counter) and at least one destructor performed allocator operations in a round that made calls (a leak into the timed section would change the figure); distinct by serialized case; classes report the loop path.",
    assumptions: &[
        "program order only: the fences around the timestamp reads order machine instructions, which no generated test can observe",
        "the harness's own bookkeeping allocates through a bypass of the profiler, so equality of tallies is exact; an allocation by divan itself inside the timed section would show up as a mismatch",
        "with a tuned sample size the reported samples are those from the freezing round on (C19); the same per-sample comparison applies to them",
    ],
    journal: true,
    timeout_s: (300, 3600),
    nshards: None,
};

pub fn check_order(c: &LoopCase, tr: &Traces, t_eff: usize) -> Result<bool, (String, String)> {
    let mut leak_sensitive = false;
    for t in 0..t_eff {
        let Some(tt) = tr.threads.get(t) else { continue };
        if !tt.problems.is_empty() {
            return Err(("trace-structure".into(), format!("thread {t}: {:?}", tt.problems)));
        }
        for (k, r) in tt.rounds.iter().enumerate() {
            for e in &r.pre {
                match e.ev {
                    Ev::Gen { .. } | Ev::Count { .. } | Ev::AllocOp { .. } | Ev::TallyClear => {}
                    other => return Err(("untimed-before".into(), format!("thread {t} round {k}: {other:?} before the start timestamp"))),
                }
            }
            let mut depth = 0;
            for e in &r.window {
                match e.ev {
                    Ev::Call { .. } => depth += 1,
                    Ev::CallRet { .. } => depth -= 1,
                    Ev::AllocOp { .. } => {
                        if depth == 0 {
                            return Err(("alloc-in-window-outside-call".into(), format!("thread {t} round {k}: a scripted allocation of an untimed role happened inside the timed section")));
                        }
                    }
                    Ev::DropIn { .. } if depth > 0 && !c.entry.by_ref() => {}
                    Ev::Gen { .. } => return Err(("gen-in-window".into(), format!("thread {t} round {k}: input generated between the start and end timestamps"))),
                    Ev::Count { .. } => return Err(("count-in-window".into(), format!("thread {t} round {k}: input counter called between the start and end timestamps"))),
                    Ev::DropOut { .. } => return Err(("output-dropped-in-window".into(), format!("thread {t} round {k}: output dropped between the start and end timestamps"))),
                    Ev::DropIn { .. } => return Err(("input-dropped-in-window".into(), format!("thread {t} round {k}: input dropped between the start and end timestamps"))),
                    other => return Err(("foreign-in-window".into(), format!("thread {t} round {k}: {other:?} inside the timed section"))),
                }
            }
            for e in &r.post {
                match e.ev {
                    Ev::DropOut { .. } | Ev::DropIn { .. } | Ev::AllocOp { .. } => {}
                    other => return Err(("untimed-after".into(), format!("thread {t} round {k}: {other:?} after the end timestamp"))),
                }
            }
            // The tally is cleared after the last input was generated and
            // counted, right before the timed section.
            if let Some(pos) = r.pre.iter().position(|e| matches!(e.ev, Ev::TallyClear)) {
                if r.pre[pos..].iter().any(|e| matches!(e.ev, Ev::Gen { .. } | Ev::Count { .. })) {
                    return Err(("clear-before-generation".into(), format!("thread {t} round {k}: the tally was cleared before input generation finished")));
                }
            } else if !c.test_mode || true {
                if r.calls() > 0 || !r.window.is_empty() {
                    return Err(("no-clear".into(), format!("thread {t} round {k}: the tally was not cleared before the timed section")));
                }
            }
            let pre_allocs = r.pre.iter().any(|e| matches!(e.ev, Ev::AllocOp { .. }));
            let post_allocs = r.post.iter().any(|e| matches!(e.ev, Ev::AllocOp { .. }));
            if pre_allocs && post_allocs && r.calls() > 0 {
                leak_sensitive = true;
            }
        }
        if !tt.tail.iter().all(|e| matches!(e.ev, Ev::AllocOp { .. })) && !tt.rounds.is_empty() {
            return Err(("trailing-events".into(), format!("thread {t}: events after the last round that are not drops: {:?}", tt.tail)));
        }
    }
    Ok(leak_sensitive)
}

/// Per-sample tally comparison (sample index = (round - first reported round) * T + thread).
pub fn check_tallies(c: &LoopCase, o: &LoopOutcome, tr: &Traces, t_eff: usize) -> Result<(), (String, String)> {
    let rounds = tr.rounds();
    let Some((first, _size)) = reported_rounds(c, tr, t_eff) else {
        return Err(("missing-readings".into(), "a round lacks readings".into()));
    };
    if o.view.durations.len() != (rounds - first.min(rounds)) * t_eff {
        return Err((
            "samples-vs-rounds".into(),
            format!("{} samples recorded but rounds {first}..{rounds} on each of {t_eff} threads should be reported", o.view.durations.len()),
        ));
    }
    if let Some(&(i, _)) = o.view.alloc_by_sample.iter().find(|(i, _)| *i as usize >= o.view.durations.len()) {
        return Err(("phantom-allocs".into(), format!("allocation data for non-existent sample #{i}")));
    }
    let mut index = 0u32;
    for k in first..rounds {
        for t in 0..t_eff {
            let Some(r) = tr.round(t, k) else {
                return Err(("uneven-rounds".into(), format!("thread {t} has no round {k}")));
            };
            let model = WindowTally::of(&r.window);
            let got = o.view.alloc_by_sample.iter().find(|(i, _)| *i == index).map(|(_, t)| t);
            match (model.is_empty(), got) {
                (true, None) => {}
                (true, Some(tally)) => {
                    return Err((
                        "phantom-allocs".into(),
                        format!("sample #{index} (round {k}, thread {t}): no allocator operation between its timestamps but it reports {tally:?} (generator / destructor / other-thread allocations attributed?)"),
                    ))
                }
                (false, None) => return Err(("lost-allocs".into(), format!("sample #{index} (round {k}, thread {t}) did {model:?} between its timestamps but reports nothing"))),
                (false, Some(tally)) => {
                    if !model.matches(tally) {
                        return Err(("wrong-allocs".into(), format!("sample #{index} (round {k}, thread {t}) reports {tally:?}; between its timestamps the thread did {model:?}")));
                    }
                }
            }
            index += 1;
        }
    }
    Ok(())
}

pub fn check_case(c: &LoopCase) -> Verdict {
    let t_eff = c.effective_threads();
    let o = run_loop(c);
    if o.abandoned {
        return Verdict::Inconclusive("runaway run (event budget)".into());
    }
    if let Err(e) = &o.result {
        return Verdict::fail("unexpected-panic", format!("loop panicked: {e}\ncase: {c:?}"));
    }
    if let Err((sig, msg)) = c01::check_lifecycle(c, &o) {
        return Verdict::fail(format!("lifecycle:{sig}"), format!("{msg}\ncase: {c:?}"));
    }
    let tr = Traces::of(&o);
    let sensitive = match check_order(c, &tr, t_eff) {
        Ok(s) => s,
        Err((sig, msg)) => return Verdict::fail(sig, format!("{msg}\ncase: {c:?}")),
    };
    if !c.test_mode {
        if let Err((sig, msg)) = check_tallies(c, &o, &tr, t_eff) {
            return Verdict::fail(sig, format!("{msg}\ncase: {c:?}"));
        }
    } else {
        vensure!(o.view.durations.is_empty() && o.view.alloc_by_sample.is_empty(), "test-mode-records", "test mode recorded samples\ncase: {c:?}");
    }
    classify(format!("{}{}{}", c01::loop_path(c), if t_eff > 1 { "/T>1" } else { "" }, if c.test_mode { "/test" } else { "" }));
    Verdict::pass(sensitive)
}

/// `(benched_call_mask, benched_thread_mask)`: which calls / threads run the
/// benchmarked function's allocation script (0 = all).
pub fn alloc_masks() -> impl Strategy<Value = (u16, u8)> {
    prop_oneof![
        3 => Just((0u16, 0u8)),
        2 => (any::<u16>(), Just(0u8)),
        2 => (Just(0u16), 1u8..=7),
        1 => (any::<u16>(), 1u8..=7),
    ]
}

pub fn alloc_steps(max: usize) -> impl Strategy<Value = Vec<AllocStep>> {
    let size = || prop_oneof![3 => 1u32..=64, 2 => 1u32..=4096, 1 => 1u32..=65_536];
    proptest::collection::vec(
        prop_oneof![
            3 => size().prop_map(AllocStep::Alloc),
            1 => size().prop_map(AllocStep::AllocZeroed),
            2 => size().prop_map(AllocStep::Realloc),
            3 => Just(AllocStep::Dealloc),
        ],
        0..=max,
    )
}

fn case() -> impl Strategy<Value = LoopCase> {
    (
        (c01::entry(), c01::shape(), c01::shape(), 1u8..=3, 1u32..=4, prop_oneof![1 => Just(Some(0u32)), 6 => (1u32..=6).prop_map(Some), 2 => Just(None)], prop::bool::weighted(0.15)),
        (alloc_steps(4), alloc_steps(4), alloc_steps(3), alloc_steps(3), alloc_steps(2)),
        (proptest::array::uniform4(prop::bool::weighted(0.3)), prop_oneof![3 => Just(0u32), 1 => 1u32..=5], any::<bool>(), 0u64..=20, alloc_masks()),
    )
        .prop_map(|((entry, input, output, threads, n, s, test_mode), (gen, benched, drop_out, drop_in, counter), (input_counters, first, vary, cost, (call_mask, thread_mask)))| {
            let mut c = LoopCase::basic(entry, input, output);
            c.threads = threads;
            c.sample_count = Some(n);
            c.sample_size = s;
            c.test_mode = test_mode;
            c.input_counters = input_counters;
            // Tuned sizes: 1 tick = 1 ns, precision 1 ns, so the size freezes by 128.
            c.costs.call = CostModel::Const(if s.is_none() { cost.max(1) } else { cost });
            c.allocs = AllocScripts { benched_first_calls: first, benched_vary: vary, vary_by_thread: vary, benched_call_mask: call_mask, benched_thread_mask: thread_mask, gen, benched, drop_out, drop_in, counter };
            c
        })
}

fn matrix(_: crate::engine::Tier) -> Vec<LoopCase> {
    // Every entry x shape cell with allocating generator, function and destructors.
    let mut v = Vec::new();
    for entry in Entry::ALL {
        for input in ShapeKind::ALL {
            if !entry.has_inputs() && input != ShapeKind::Unit {
                continue;
            }
            for output in ShapeKind::ALL {
                for threads in [1u8, 2] {
                    let mut c = LoopCase::basic(entry, input, output);
                    c.threads = threads;
                    c.sample_count = Some(2);
                    c.sample_size = Some(3);
                    c.allocs = AllocScripts {
                        benched_first_calls: 0,
                        benched_vary: true,
                        vary_by_thread: true,
                        benched_call_mask: 0,
                        benched_thread_mask: 0,
                        gen: vec![AllocStep::Alloc(100)],
                        benched: vec![AllocStep::Alloc(7), AllocStep::Realloc(30), AllocStep::Dealloc],
                        drop_out: vec![AllocStep::Alloc(200), AllocStep::Dealloc],
                        drop_in: vec![AllocStep::Dealloc, AllocStep::Alloc(11), AllocStep::Dealloc],
                        counter: vec![AllocStep::AllocZeroed(5), AllocStep::Dealloc],
                    };
                    c.input_counters = [false, true, false, false];
                    v.push(c);
                }
            }
        }
    }
    v
}

fn groups(g: &mut Groups) {
    g.enumerate("matrix", matrix, true, check_case);
    g.prop("random", 48_000, 4_000_000, || case(), check_case);
}
