//! One module per property.

use crate::groups::Groups;

pub mod c01;
pub mod c02;
pub mod c03;
pub mod c04;
pub mod c05;
pub mod c05_loop;
pub mod c06;
pub mod c07;
pub mod c08;
pub mod pool;
pub mod c09;
pub mod c10;
pub mod c11;
pub mod c12;
pub mod c13;
pub mod c14;
pub mod c15;
pub mod c16;
pub mod c17;
pub mod e3;
pub mod c18;
pub mod c19;
pub mod c20;
pub mod twin;
pub mod twingen;
pub mod twinref;

pub struct PropDef {
    pub id: &'static str,
    /// Declares (and thereby runs or replays) the groups of this property.
    pub groups: fn(&mut Groups),
    /// How cases are generated and what makes one non-trivial / distinct.
    pub rule: &'static str,
    pub assumptions: &'static [&'static str],
    /// Journal each case before executing it (for code that may crash).
    pub journal: bool,
    /// Watchdog in seconds (quick, thorough).
    pub timeout_s: (u64, u64),
    pub nshards: Option<u64>,
}

pub fn all() -> &'static [PropDef] {
    &[c01::DEF, c02::DEF, c03::DEF, c04::DEF, c05::DEF, c06::DEF, c07::DEF, c08::DEF, c09::DEF, c10::DEF, c11::DEF, c12::DEF, c13::DEF, c14::DEF, c15::DEF, c16::DEF, c17::DEF, c18::DEF, c19::DEF, c20::DEF]
}

/// Serde helper: u128 as decimal string (serde_json cannot read back large
/// u128 numbers without arbitrary precision).
pub mod u128_str {
    use serde::{Deserialize, Deserializer, Serializer};

    pub fn serialize<S: Serializer>(v: &u128, s: S) -> Result<S::Ok, S::Error> {
        s.serialize_str(&v.to_string())
    }

    pub fn deserialize<'de, D: Deserializer<'de>>(d: D) -> Result<u128, D::Error> {
        let s = String::deserialize(d)?;
        s.parse().map_err(serde::de::Error::custom)
    }
}

pub mod vec_u128_str {
    use serde::{Deserialize, Deserializer, Serialize, Serializer};

    pub fn serialize<S: Serializer>(v: &Vec<u128>, s: S) -> Result<S::Ok, S::Error> {
        v.iter().map(|x| x.to_string()).collect::<Vec<_>>().serialize(s)
    }

    pub fn deserialize<'de, D: Deserializer<'de>>(d: D) -> Result<Vec<u128>, D::Error> {
        let v = Vec::<String>::deserialize(d)?;
        v.into_iter().map(|s| s.parse().map_err(serde::de::Error::custom)).collect()
    }
}
