//! C05 (b): statistics of runs through the real sample loop (filled in with the loop driver).

use crate::groups::Groups;

pub fn groups(_g: &mut Groups) {}
