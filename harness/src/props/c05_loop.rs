//! C05 (b): statistics of runs through the real sample loop.
//!
//! The samples a run must have recorded are derived from the *trace* (logged
//! readings, in-window allocator operations, generated inputs); the statistics
//! the loop reports are then judged by the same reference as the injected
//! cases, so the sample -> index -> allocation/counter association is checked
//! end to end.

use proptest::prelude::*;

use super::{
    c01, c02,
    c05::{judge_painted, judge_stats, Case as StatsCase, CounterSpec},
};
use crate::{
    engine::{classify, Verdict},
    groups::Groups,
    loopdrv::*,
    loopmodel::*,
    vensure,
};

pub fn check_case(c: &LoopCase) -> Verdict {
    let t_eff = c.effective_threads();
    if c.test_mode {
        return Verdict::Inconclusive("test mode".into());
    }
    let o = run_loop(c);
    if o.abandoned {
        return Verdict::Inconclusive("runaway run (event budget)".into());
    }
    if let Err(e) = &o.result {
        return Verdict::fail("unexpected-panic", format!("loop panicked: {e}\ncase: {c:?}"));
    }
    let tr = Traces::of(&o);
    let rounds = tr.rounds();
    let Some((first, size)) = reported_rounds(c, &tr, t_eff) else { return Verdict::fail("missing-readings", format!("a round lacks readings\ncase: {c:?}")) };
    let s = size as u32;
    vensure!(
        o.view.durations.len() == (rounds - first.min(rounds)) * t_eff,
        "samples-vs-rounds",
        "{} samples for rounds {first}..{rounds} x {t_eff} threads\ncase: {c:?}",
        o.view.durations.len()
    );
    let tuned = c.sample_size.is_none();
    let mut durations = Vec::new();
    let mut allocs = Vec::new();
    let mut per_input: [Vec<u64>; 4] = Default::default();
    for k in first..rounds {
        for t in 0..t_eff {
            let Some(r) = tr.round(t, k) else { return Verdict::fail("uneven-rounds", format!("thread {t} lacks round {k}\ncase: {c:?}")) };
            let raw = conv(r.end, r.start, c.frequency);
            // While tuning, a zero reading is stored as one timer precision.
            let raw = if tuned && raw == 0 { c.precision_ps.max(1) as u128 } else { raw };
            // A stored sample is its reading, a zero one raised to the timer
            // precision, minus the overhead of the sample loop and of the
            // tally bookkeeping of the allocator operations inside the
            // window, raised to the precision again if nothing is left.
            let model = WindowTally::of(&r.window);
            let raw = if c.overheads_ps.iter().any(|&x| x != 0) {
                // The precision is only measured (and non-zero) when the size is tuned.
                let p = if tuned { c.precision_ps as u128 } else { 0 };
                let clamp = |x: u128| if x == 0 { p } else { x };
                let [grow, shrink, alloc, dealloc, _] = model.as_c05();
                let ov = c.overheads_ps.map(|x| x as u128);
                let overhead = ov[0] * size as u128 + ov[1] * alloc.0 as u128 + ov[2] * dealloc.0 as u128 + ov[3] * (grow.0 as u128 + shrink.0 as u128);
                clamp(clamp(raw).saturating_sub(overhead))
            } else {
                raw
            };
            let i = durations.len();
            vensure!(o.view.durations[i] == raw, "recorded-duration", "sample #{i} (round {k}, thread {t}) recorded {} ps, its readings give {raw} ps\ncase: {c:?}", o.view.durations[i]);
            durations.push(raw);
            if model.equal_realloc > 0 {
                return Verdict::Inconclusive("equal-size realloc (classification free)".into());
            }
            allocs.push(if model.is_empty() { None } else { Some(model.as_c05()) });
            for kind in 0..4 {
                per_input[kind].push(per_iter_count(kind as u8, r, s));
            }
        }
    }
    let counters: [CounterSpec; 4] = std::array::from_fn(|kind| {
        if c.entry.has_inputs() && c.input_counters[kind] {
            CounterSpec::PerInput(per_input[kind].clone())
        } else if let Some(v) = c.const_counters[kind] {
            CounterSpec::Const(v)
        } else {
            CounterSpec::None
        }
    });
    let sc = StatsCase { sample_size: if durations.is_empty() { 0 } else { s }, durations, allocs, counters, binary: false };
    let stats = match &o.stats {
        Some(Ok(st)) => st,
        Some(Err(e)) => return Verdict::fail(if sc.durations.is_empty() { "stats-panic:samples=0" } else { "stats-panic" }, format!("compute_stats panicked: {e}\ncase: {c:?}")),
        None => return Verdict::fail("stats-missing", format!("no statistics\ncase: {c:?}")),
    };
    if let Err((sig, msg)) = judge_stats(&sc, stats) {
        return Verdict::fail(sig, format!("{msg}\nsamples derived from the trace: {sc:?}\ncase: {c:?}"));
    }
    if let Some(text) = &o.painted {
        if let Err((sig, msg)) = judge_painted(text, stats, &sc) {
            return Verdict::fail(sig, format!("{msg}\ncase: {c:?}"));
        }
    }
    let n = sc.durations.len();
    let mut sorted = sc.durations.clone();
    sorted.sort_unstable();
    let tie = sorted.windows(2).any(|w| w[0] == w[1]);
    let sparse = sc.allocs.iter().any(|a| a.is_some()) && sc.allocs.iter().any(|a| a.is_none());
    let distinct_allocs = {
        let mut v: Vec<_> = sc.allocs.iter().flatten().collect();
        v.dedup();
        v.len() > 1
    };
    // The run ended while the size was still being tuned.
    let cut = tuned && rounds > 0 && first == rounds - 1 && (0..t_eff).filter_map(|t| tr.round(t, first)).map(|r| conv(r.end, r.start, c.frequency)).max().map(|d| d / (c.precision_ps.max(1) as u128) <= 100).unwrap_or(false);
    classify(format!("n={}{}{}{}{}", if n == 0 { "0" } else if n == 1 { "1" } else if n % 2 == 0 { "even" } else { "odd" }, if tie { "/tie" } else { "" }, if sparse { "/sparse" } else { "" }, if t_eff > 1 { "/T>1" } else { "" }, if cut { "/cut-while-tuning" } else { "" }));
    if c.overheads_ps.iter().any(|&x| x != 0) {
        classify("overheads");
    }
    Verdict::pass((n >= 2 && (tie || n % 2 == 0 || sparse || distinct_allocs)) || (cut && size > 1))
}

fn case() -> impl Strategy<Value = LoopCase> {
    (
        (c01::entry(), c01::shape(), c01::shape(), 1u8..=3, prop_oneof![1 => Just(0u32), 8 => 1u32..=9], prop_oneof![1 => Just(Some(0u32)), 8 => (1u32..=5).prop_map(Some), 2 => Just(None)]),
        (
            prop_oneof![
                2 => proptest::collection::vec(0u64..=50, 1..=7).prop_map(CostModel::Table),
                2 => (0u64..=5, 0u64..=7).prop_map(|(base, step)| CostModel::Growing { base, step }),
                1 => (0u64..=9).prop_map(CostModel::Const),
            ],
            0u64..=9,
            c02::alloc_steps(3),
            prop_oneof![2 => Just(0u32), 1 => 1u32..=7],
            any::<bool>(),
            (c02::alloc_steps(2), c02::alloc_masks(), proptest::option::weighted(0.35, prop_oneof![0u32..=40, 0u32..=400, 0u32..=4000])),
        ),
        (proptest::array::uniform4(prop::bool::weighted(0.4)), proptest::array::uniform4(proptest::option::weighted(0.3, prop_oneof![0u64..=100, any::<u64>()])), prop_oneof![Just(1_000_000_000u64), Just(1_000_000_000_000u64), Just(3_000_000_000u64)], any::<bool>()),
        // Overheads (sample loop per iteration; per tallied alloc, dealloc, realloc) and a precision, in picoseconds.
        proptest::option::weighted(0.35, (proptest::array::uniform4(prop_oneof![2 => Just(0u64), 2 => 1u64..=9, 2 => 10u64..=4000]), prop_oneof![Just(0u64), 1u64..=5000])),
    )
        .prop_map(|((entry, input, output, threads, n, s), (call, skew, benched, first, vary, (gen, (call_mask, thread_mask), max_ns)), (input_counters, const_counters, frequency, const_first), overheads)| {
            let mut c = LoopCase::basic(entry, input, output);
            c.threads = threads;
            c.sample_count = Some(n);
            c.sample_size = s;
            c.frequency = frequency;
            // Tuned sizes must freeze: make every call cost at least one precision.
            if s.is_none() {
                c.precision_ps = (1_000_000_000_000u128 / frequency as u128).max(1) as u64;
            }
            c.costs.call = if s.is_none() { match call { CostModel::Table(t) => CostModel::Table(t.into_iter().map(|x| x.max(1)).collect()), CostModel::Growing { base, step } => CostModel::Growing { base: base.max(1), step }, CostModel::Const(x) => CostModel::Const(x.max(1)), other => other } } else { call };
            c.costs.per_thread_skew = skew;
            c.input_counters = input_counters;
            // `input_counter` followed by `counter` of the same kind on one
            // Bencher is not a documented combination (see DESIGN.md, section
            // 10): constant counters only for kinds without an input counter.
            // The other order (constant first, as with an inherited option)
            // is well defined: the input counter replaces the constant.
            c.const_first = const_first;
            c.const_counters = std::array::from_fn(|k| if input_counters[k] && entry.has_inputs() && !const_first { None } else { const_counters[k] });
            c.allocs.benched = benched;
            c.allocs.benched_first_calls = first;
            c.allocs.benched_vary = vary;
            c.allocs.gen = gen;
            // A time budget that can run out while the size is still being
            // tuned: the one recorded sample then has the size it ran with.
            c.max_time = max_ns.map(|ns| (0, ns));
            c.allocs.benched_call_mask = call_mask;
            c.allocs.benched_thread_mask = thread_mask;
            // Overheads only with an explicit sample size and no time budget
            // (tuning and the stopping rule are judged elsewhere, with zero overheads).
            if let (Some((ov, precision)), Some(_)) = (overheads, s) {
                c.overheads_ps = ov;
                c.precision_ps = precision;
                c.max_time = None;
            }
            c
        })
}

pub fn groups(g: &mut Groups) {
    PAINT.store(true, std::sync::atomic::Ordering::SeqCst);
    g.prop("loop", 18_000, 1_200_000, || case(), check_case);
}
