//! C08 — threads of a parallel benchmark enter and leave timed sections together.
//!
//! The real sample loop runs on T > 1 threads under the deterministic
//! scheduler (`divan::__verif::sched`) with a generated schedule; the global,
//! serialised event log is judged per round.

use divan::__verif::sched::{self, Config, Failure};
use proptest::prelude::*;
use serde::{Deserialize, Serialize};

use super::{c01, c02, pool, PropDef};
use crate::{
    engine::{classify, Verdict},
    galloc,
    groups::Groups,
    loopdrv::*,
    loopmodel::*,
};

pub const DEF: PropDef = PropDef {
    id: "C08",
    groups,
    rule: "the real loop on T in 2..=4 threads, 1..=3 rounds, sample_size 0..=4 or tuned (two or three tuning rounds before the collecting ones), representative shapes of every loop path, per-thread distinguishable allocation scripts (optionally only on some threads / in some calls), explicit yields inside user closures, a generated schedule (sparse preemptions / dense random) and optionally a panic plan (one thread or all threads; generator, counter, benchmarked function or a destructor; at occurrence k, i.e. in any round); \
           non-trivial = some thread reached a barrier while another thread was still in the previous phase (the barrier ordered something: observed as a thread blocked on the barrier), or a panic plan fired; distinct = distinct (case, realised interleaving).",
    assumptions: &[
        "interleavings are sequentially consistent and chosen at the yield points of the std shim (barrier, pool primitives) and at explicit yields inside the instrumented closures",
        "'had its allocation tally cleared' is observed through its effect: every thread's reported tally equals the reference tally of its own in-window operations",
        "known finding (listed in known_findings.json): a panic in a strict subset of the threads before the end-of-round barrier leaves the other threads waiting forever; those cases are counted and the search continues",
    ],
    journal: true,
    timeout_s: (300, 3600),
    nshards: None,
};

#[derive(Clone, Debug, Serialize, Deserialize)]
pub struct Case {
    pub lc: LoopCase,
    pub schedule: Vec<u32>,
}

fn enter() {
    galloc::internal_enter();
}
fn exit() {
    galloc::internal_exit();
}

pub fn check_case(case: &Case) -> Verdict {
    let c = &case.lc;
    let t_eff = c.effective_threads();
    if t_eff < 2 {
        return Verdict::Inconclusive("single thread".into());
    }
    sched::set_internal_hooks(Some((enter, exit)));
    let mut report = None;
    let o = run_loop_with(c, |body| {
        report = Some(sched::run(Config { schedule: case.schedule.clone(), spurious: vec![], step_budget: 60_000 }, || body()));
    });
    sched::set_internal_hooks(None);
    let report = report.unwrap();
    let fired: Vec<usize> = o.logs.iter().enumerate().filter(|(_, l)| l.iter().any(|e| matches!(e.ev, Ev::Panic { .. }))).map(|(t, _)| t).collect();

    match &report.failure {
        Some(Failure::Budget) => return Verdict::Inconclusive("step budget".into()),
        Some(Failure::Deadlock(blocked)) => {
            let sig = if !fired.is_empty() {
                let role = c.panic.map(|p| format!("{:?}", p.role).to_lowercase()).unwrap_or_default();
                if fired.len() < t_eff {
                    format!("deadlock:panic-subset:{role}")
                } else {
                    format!("deadlock:panic-all:{role}")
                }
            } else {
                "deadlock".to_string()
            };
            return Verdict::fail(sig, format!("the run hangs: {blocked:?}\npanicked threads: {fired:?}\ncase: {case:?}"));
        }
        Some(Failure::Abort(t)) => return Verdict::fail("abort", format!("process::abort on thread {t}\ncase: {case:?}")),
        Some(Failure::DeadObject(kind, op, t)) => return Verdict::fail("dead-object", format!("thread {t}: {op} on a dropped {kind}\ncase: {case:?}")),
        None => {}
    }
    if !report.leaked.is_empty() {
        return Verdict::fail("leaked-workers", format!("workers still blocked after the run: {:?}\ncase: {case:?}", report.leaked));
    }
    let barrier_blocked = report.switches.len() > 0 && report.preemptions > 0;

    if !fired.is_empty() {
        // A panic on any thread must end the run with a panic on the caller.
        if o.result.is_ok() {
            return Verdict::fail("panic-swallowed", format!("threads {fired:?} panicked but the run returned normally\ncase: {case:?}"));
        }
        if let Err((sig, msg)) = c01::check_lifecycle(c, &o) {
            return Verdict::fail(format!("lifecycle:{sig}"), format!("{msg}\ncase: {case:?}"));
        }
        classify(format!("panic:{:?}/{}", c.panic.map(|p| p.role), if fired.len() < t_eff { "subset" } else { "all" }));
        return Verdict::pass(true);
    }
    if let Err(e) = &o.result {
        return Verdict::fail("unexpected-panic", format!("loop panicked: {e}\ncase: {case:?}"));
    }
    if let Err((sig, msg)) = c01::check_lifecycle(c, &o) {
        return Verdict::fail(format!("lifecycle:{sig}"), format!("{msg}\ncase: {case:?}"));
    }
    let tr = Traces::of(&o);
    if let Err((sig, msg)) = c02::check_order(c, &tr, t_eff) {
        return Verdict::fail(sig, format!("{msg}\ncase: {case:?}"));
    }
    let rounds = tr.rounds();
    let mut ordered_something = false;
    for k in 0..rounds {
        let mut last_pre = 0u64;
        let mut first_start = u64::MAX;
        let mut last_end = 0u64;
        let mut first_post = u64::MAX;
        let mut who = (0usize, 0usize, 0usize, 0usize);
        for t in 0..t_eff {
            let Some(r) = tr.round(t, k) else {
                return Verdict::fail("uneven-rounds", format!("thread {t} lacks round {k}\ncase: {case:?}"));
            };
            if let Some(e) = r.pre.iter().filter(|e| !matches!(e.ev, Ev::AllocOp { .. })).last() {
                // (includes the TallyClear event)
                if e.seq > last_pre {
                    last_pre = e.seq;
                    who.0 = t;
                }
            }
            if r.start_seq < first_start {
                first_start = r.start_seq;
                who.1 = t;
            }
            if r.end_seq > last_end {
                last_end = r.end_seq;
                who.2 = t;
            }
            if let Some(e) = r.post.iter().find(|e| matches!(e.ev, Ev::DropOut { .. } | Ev::DropIn { .. })) {
                if e.seq < first_post {
                    first_post = e.seq;
                    who.3 = t;
                }
            }
        }
        if last_pre > first_start {
            return Verdict::fail(
                "start-before-all-generated",
                format!("round {k}: thread {} took its start timestamp before thread {} had finished generating inputs and had its tally cleared\ncase: {case:?}", who.1, who.0),
            );
        }
        if first_post < last_end {
            return Verdict::fail(
                "drop-before-all-ended",
                format!("round {k}: thread {} started dropping values before thread {} took its end timestamp\ncase: {case:?}", who.3, who.2),
            );
        }
        if last_pre != 0 || first_post != u64::MAX {
            ordered_something = true;
        }
    }
    if !c.test_mode {
        if let Err((sig, msg)) = c02::check_tallies(c, &o, &tr, t_eff) {
            return Verdict::fail(format!("tally:{sig}"), format!("{msg}\ncase: {case:?}"));
        }
    }
    classify(format!("T={t_eff}/preemptions={}", report.preemptions.min(4)));
    Verdict::pass(ordered_something && barrier_blocked)
}

fn rep_shapes() -> impl Strategy<Value = (Entry, ShapeKind, ShapeKind)> {
    prop_oneof![
        Just((Entry::Bench, ShapeKind::Unit, ShapeKind::ZstDrop)),
        Just((Entry::Bench, ShapeKind::Unit, ShapeKind::Owned)),
        Just((Entry::BenchValues, ShapeKind::Owned, ShapeKind::Plain)),
        Just((Entry::BenchValues, ShapeKind::ZstDrop, ShapeKind::ZstDrop)),
        Just((Entry::BenchRefs, ShapeKind::Owned, ShapeKind::Owned)),
        Just((Entry::BenchRefs, ShapeKind::ZstDrop, ShapeKind::Unit)),
        Just((Entry::BenchRefs, ShapeKind::Plain, ShapeKind::ZstDrop)),
        (prop_oneof![Just(Entry::Bench), Just(Entry::BenchValues), Just(Entry::BenchRefs)], c01::shape(), c01::shape()),
    ]
}

fn role() -> impl Strategy<Value = Role> {
    prop_oneof![3 => Just(Role::Benched), 2 => Just(Role::Gen), 1 => Just(Role::Counter), 2 => Just(Role::DropOut), 1 => Just(Role::DropIn)]
}

fn case() -> impl Strategy<Value = Case> {
    (
        (rep_shapes(), 2u8..=4, 1u32..=3, prop_oneof![1 => Just(Some(0u32)), 5 => (1u32..=4).prop_map(Some), 2 => Just(None)], prop::bool::weighted(0.1)),
        (c02::alloc_steps(2), c02::alloc_steps(2), (c02::alloc_steps(2), c02::alloc_masks()), proptest::array::uniform4(prop::bool::weighted(0.25)), 0u8..=2),
        (proptest::option::weighted(0.3, (role(), proptest::option::weighted(0.6, 0u8..=3), 0u32..=10)), pool::schedule(260)),
    )
        .prop_map(|(((entry, input, output), threads, rounds, s, test_mode), (gen, benched, (drop_out, (call_mask, thread_mask)), input_counters, yields), (panic, schedule))| {
            let mut c = LoopCase::basic(entry, input, output);
            c.threads = threads;
            c.sample_count = Some(rounds * threads as u32);
            c.sample_size = s;
            if s.is_none() {
                // Tuned size: two or three tuning rounds (the last one is
                // kept), then the collecting rounds - every round must be
                // synchronised the same way.
                c.costs.call = CostModel::Const(if rounds % 2 == 0 { 60 } else { 40 });
            }
            c.test_mode = test_mode;
            c.input_counters = input_counters;
            c.yields = yields;
            c.allocs = AllocScripts { benched_first_calls: 0, benched_vary: true, vary_by_thread: true, benched_call_mask: call_mask, benched_thread_mask: thread_mask, gen, benched, drop_out, drop_in: vec![], counter: vec![] };
            c.panic = panic.map(|(role, thread, at)| PanicPlan { role, thread: thread.map(|t| t % threads), at });
            Case { lc: c, schedule }
        })
}

fn groups(g: &mut Groups) {
    g.prop("random", 40_000, 3_600_000, || case(), check_case);
}
