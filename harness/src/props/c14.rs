//! C14 — listing runs nothing and agrees exactly with what a run would execute.

use std::collections::BTreeMap;

use proptest::prelude::*;
use serde::{Deserialize, Serialize};

use super::{
    c13::{key_of_case, key_of_invocation, multiset, CaseKey},
    twin::{self, *},
    twingen,
    twinref::{self, *},
    PropDef,
};
use crate::{
    engine::{classify, Verdict},
    groups::Groups,
    vensure,
};

pub const DEF: PropDef = PropDef {
    id: "C14",
    groups,
    rule: "generated entry trees with ignore set directly, inherited from a group, overridden to false inside an ignored group and nested twice x filter sets (as C13) x {no flag, --ignored, --include-ignored}; actions --list, --list --format terse (NEXTEST=1) and Divan::list_benches(), in-process and through real command lines in a child process; round trip: up to 3 listed paths are fed back as the only --exact filter; argument labels with commas, parentheses and spaces; on the command-line route the first and last listed line are fed back as `--exact <path>` in a further child process; \
           non-trivial = at least one ignored and one non-ignored case are selected and the flag is not 'none', or an ignore override sits inside an ignored group; distinct by serialized case.",
    assumptions: &[
        "a benchmark 'ran' iff its body (which logs) was invoked; generator / counter / Bencher closures live inside the bodies",
        "the round-trip clause is only judged for paths that are unique among the cases",
        "same registry trust base as C13",
    ],
    journal: true,
    timeout_s: (300, 3600),
    nshards: None,
};

#[derive(Clone, Debug, Serialize, Deserialize)]
pub struct Case {
    pub spec: TwinSpec,
    pub filters: Vec<(bool, bool, String)>,
    /// 0 none, 1 --ignored, 2 --include-ignored
    pub ignored: u8,
}

pub fn should_run(flag: u8, ignored: bool) -> bool {
    match flag {
        0 => !ignored,
        1 => ignored,
        _ => true,
    }
}

fn terse_lines(text: &str) -> BTreeMap<String, usize> {
    multiset(text.lines().filter(|l| !l.is_empty()).map(|l| l.to_string()))
}

pub fn check_case(c: &Case) -> Verdict {
    let Some(rf) = RefFilters::new(&c.filters) else { return Verdict::Inconclusive("pattern".into()) };
    let base = RunCfg { action: "test".into(), filters: c.filters.clone(), ignored: c.ignored, ..RunCfg::default() };
    let run = |action: &str| run_in_process(&c.spec, &RunCfg { action: action.into(), ..base.clone() });
    let (test, list, terse, api) = match (run("test"), run("list"), run("list-terse"), run("list-api")) {
        (Ok(a), Ok(b), Ok(c), Ok(d)) => (a, b, c, d),
        _ => return Verdict::Inconclusive("pattern rejected".into()),
    };
    for (name, r) in [("test", &test), ("--list", &list), ("--list --format terse", &terse), ("Divan::list_benches", &api)] {
        if let Some(p) = &r.panic {
            return Verdict::fail("runner-panic", format!("{name} panicked: {p}"));
        }
    }
    // (a) listing runs nothing.
    vensure!(list.invocations.is_empty(), "list-runs", "--list invoked {} benchmark bodies", list.invocations.len());
    vensure!(terse.invocations.is_empty(), "terse-list-runs", "--list --format terse invoked {} benchmark bodies", terse.invocations.len());
    vensure!(
        api.invocations.is_empty(),
        "list_benches-runs",
        "Divan::list_benches() invoked {} benchmark bodies (first: uid {})",
        api.invocations.len(),
        api.invocations[0].uid
    );

    // (b) terse lines = cases a test run executes.
    let tree = twinref::build(&c.spec);
    let cases = twinref::cases(&tree);
    let by_key: BTreeMap<CaseKey, &RCase> = cases.iter().map(|k| (key_of_case(k), k)).collect();
    let executed = multiset(test.invocations.iter().map(key_of_invocation));
    // The run itself must match the reference (selection and ignore flags).
    let expect_run = multiset(cases.iter().filter(|k| rf.selects(&k.path_str()) && should_run(c.ignored, k.ignored())).map(key_of_case));
    if executed.keys().collect::<Vec<_>>() != expect_run.keys().collect::<Vec<_>>() {
        let extra: Vec<_> = executed.keys().filter(|k| !expect_run.contains_key(*k)).map(|k| by_key.get(k).map(|c| c.path_str())).collect();
        let missing: Vec<_> = expect_run.keys().filter(|k| !executed.contains_key(*k)).map(|k| by_key.get(k).map(|c| c.path_str())).collect();
        return Verdict::fail("run-vs-flags", format!("a test run with flag {} executed unexpected {extra:?} / did not execute {missing:?}", c.ignored));
    }
    let expect_lines = multiset(executed.keys().filter_map(|k| by_key.get(k)).map(|k| format!("{}: benchmark", k.path_str())));
    let got_lines = terse_lines(&terse.stdout);
    if got_lines != expect_lines {
        let missing: Vec<_> = expect_lines.iter().filter(|(k, v)| got_lines.get(*k) != Some(v)).map(|(k, _)| k.clone()).collect();
        let extra: Vec<_> = got_lines.iter().filter(|(k, v)| expect_lines.get(*k) != Some(v)).map(|(k, _)| k.clone()).collect();
        let sig = if c.ignored == 1 && got_lines.is_empty() {
            "terse-vs-run:ignored-flag-empty"
        } else if !missing.is_empty() && extra.is_empty() {
            "terse-vs-run:missing"
        } else if missing.is_empty() {
            "terse-vs-run:extra"
        } else {
            "terse-vs-run"
        };
        return Verdict::fail(sig, format!("terse listing (flag {}) lacks {missing:?} and has unexpected {extra:?}; a test run executes {:?}", c.ignored, expect_lines.keys().collect::<Vec<_>>()));
    }
    // Divan::list_benches prints what --list prints.
    // Compared as multisets of node paths: siblings that tie on name and
    // location are ordered by entry address (DESIGN.md, A8), and the two
    // runs register their entries at different addresses.
    let nodes = |r: &TwinRun| super::c13::printed_nodes(&r.stdout, false).ok();
    vensure!(
        api.stdout == list.stdout || (nodes(&api).is_some() && nodes(&api) == nodes(&list)),
        "list_benches-output",
        "Divan::list_benches() prints\n{}\nbut --list prints\n{}",
        api.stdout,
        list.stdout
    );

    // (c) round trip for unique paths.
    let all_paths = multiset(cases.iter().map(|k| k.path_str()));
    let mut tried = 0;
    for line in got_lines.keys() {
        let Some(path) = line.strip_suffix(": benchmark") else {
            return Verdict::fail("terse-format", format!("malformed terse line {line:?}"));
        };
        if all_paths.get(path) != Some(&1) || tried >= 3 {
            continue;
        }
        tried += 1;
        let cfg = RunCfg { action: "test".into(), filters: vec![(true, true, path.to_string())], ignored: c.ignored, ..RunCfg::default() };
        let Ok(r) = run_in_process(&c.spec, &cfg) else { continue };
        let ran: Vec<String> = r.invocations.iter().map(key_of_invocation).filter_map(|k| by_key.get(&k).map(|c| c.path_str())).collect();
        let mut uniq = ran.clone();
        uniq.dedup();
        vensure!(uniq == vec![path.to_string()], "round-trip", "--exact {path:?} ran {ran:?}");
    }

    let sel: Vec<&RCase> = cases.iter().filter(|k| rf.selects(&k.path_str())).collect();
    let mixed = sel.iter().any(|k| k.ignored()) && sel.iter().any(|k| !k.ignored());
    let override_inside = cases.iter().any(|k| k.levels.first().and_then(|l| l.ignore) == Some(false) && k.levels.iter().skip(1).any(|l| l.ignore == Some(true)));
    classify(format!("flag={}{}", c.ignored, if mixed { "/mixed" } else { "" }));
    Verdict::pass((mixed && c.ignored != 0) || override_inside)
}

/// The same through a real command line under `NEXTEST=1`.
pub fn check_cli(c: &Case) -> Verdict {
    let exact = c.filters.first().map(|f| f.1).unwrap_or(false);
    let filters: Vec<(bool, bool, String)> = c.filters.iter().map(|f| (f.0, exact, f.2.clone())).collect();
    let Some(rf) = RefFilters::new(&filters) else { return Verdict::Inconclusive("pattern".into()) };
    let mut common: Vec<String> = Vec::new();
    if exact {
        common.push("--exact".into());
    }
    match c.ignored {
        1 => common.push("--ignored".into()),
        2 => common.push("--include-ignored".into()),
        _ => {}
    }
    for (inclusive, _, pattern) in &filters {
        if pattern.starts_with('-') {
            return Verdict::pass(false);
        }
        if !*inclusive {
            common.push("--skip".into());
        }
        common.push(pattern.clone());
    }
    let tag = format!("c14-{}", std::process::id());
    let mut args = vec!["--list".to_string(), "--format".into(), "terse".into()];
    args.extend(common.iter().cloned());
    let (terse, code, stderr) = match twin::run_child(&c.spec, &args, &[("NEXTEST".into(), "1".into())], &tag) {
        Ok(r) => r,
        Err(e) => return Verdict::Inconclusive(e),
    };
    if code == 2 {
        return Verdict::Inconclusive("command line rejected".into());
    }
    vensure!(code == 0, "cli-exit", "exit code {code}: {stderr}");
    vensure!(terse.invocations.is_empty(), "cli:terse-list-runs", "terse listing invoked {} bodies", terse.invocations.len());
    let mut args = vec!["--test".to_string()];
    args.extend(common.iter().cloned());
    let (test, code, stderr) = match twin::run_child(&c.spec, &args, &[], &tag) {
        Ok(r) => r,
        Err(e) => return Verdict::Inconclusive(e),
    };
    vensure!(code == 0, "cli-exit", "exit code {code}: {stderr}");
    let tree = twinref::build(&c.spec);
    let cases = twinref::cases(&tree);
    let by_key: BTreeMap<CaseKey, &RCase> = cases.iter().map(|k| (key_of_case(k), k)).collect();
    let executed = multiset(test.invocations.iter().map(key_of_invocation));
    let expect_lines = multiset(executed.keys().filter_map(|k| by_key.get(k)).map(|k| format!("{}: benchmark", k.path_str())));
    let got_lines = terse_lines(&terse.stdout);
    if got_lines != expect_lines {
        let sig = if c.ignored == 1 && got_lines.is_empty() { "terse-vs-run:ignored-flag-empty" } else { "cli:terse-vs-run" };
        return Verdict::fail(sig, format!("(command line {args:?}) terse listing {:?} but a test run executes {:?}", got_lines.keys().collect::<Vec<_>>(), expect_lines.keys().collect::<Vec<_>>()));
    }
    let _ = rf;
    // Round trip through the real command line: a listed path given back
    // with --exact selects exactly that case (first and last listed line
    // whose path is unique).
    let all_paths = multiset(cases.iter().map(|k| k.path_str()));
    let lines: Vec<&String> = got_lines.keys().collect();
    let mut tried = 0;
    for line in lines.first().into_iter().chain(lines.last().filter(|_| lines.len() > 1)) {
        let Some(path) = line.strip_suffix(": benchmark") else { continue };
        if all_paths.get(path) != Some(&1) || path.starts_with('-') {
            continue;
        }
        let args = vec!["--test".to_string(), "--include-ignored".into(), "--exact".into(), path.to_string()];
        let (one, code, stderr) = match twin::run_child(&c.spec, &args, &[], &tag) {
            Ok(r) => r,
            Err(e) => return Verdict::Inconclusive(e),
        };
        vensure!(code == 0, "cli-exit", "exit code {code} for {args:?}: {stderr}");
        let ran: Vec<String> = one.invocations.iter().map(key_of_invocation).filter_map(|k| by_key.get(&k).map(|c| c.path_str())).collect();
        let mut distinct = ran.clone();
        distinct.sort();
        distinct.dedup();
        vensure!(distinct == vec![path.to_string()], "cli:round-trip", "the listed path {path:?} given back as `--exact {path}` runs {distinct:?}");
        tried += 1;
    }
    Verdict::pass((c.ignored != 0 && !executed.is_empty()) || tried > 0)
}

pub fn case() -> impl Strategy<Value = Case> {
    // More `ignore` attributes than the default spec generator sets.
    twingen::spec_with(0.3).prop_flat_map(|spec| {
        let f = twingen::filters_for(&spec);
        (Just(spec), prop_oneof![2 => Just(Vec::new()), 3 => f], 0u8..=2).prop_map(|(spec, filters, ignored)| Case { spec, filters, ignored })
    })
}

fn groups(g: &mut Groups) {
    g.prop("twin", 16_000, 1_600_000, || case(), check_case);
    g.prop("cli", 1_200, 64_000, || case(), check_cli);
    // The same route with the command line parsed in this process (hook `__verif::cli`).
    g.prop("cli_inproc", 16_000, 400_000, || case(), |c| twin::with_cli_in_process(|| check_cli(c)));
}
