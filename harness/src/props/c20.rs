//! C20 — the printed tree is a faithful, well-formed picture of what ran.

use std::collections::BTreeMap;

use divan::__verif::pure;
use proptest::prelude::*;
use serde::{Deserialize, Serialize};

use super::{
    c13::{expected_nodes, key_of_case, key_of_invocation, multiset, CaseKey},
    c14::should_run,
    twin::*,
    twingen,
    twinref::{self, *},
    PropDef,
};
use crate::{
    engine::{classify, Verdict},
    groups::Groups,
    vensure,
};

pub const DEF: PropDef = PropDef {
    id: "C20",
    groups,
    rule: "generated trees (module depth <= 3 under the crate, fan-out up to ~6, names of display width 1..~40 incl. non-ASCII, spaces and '::', args, generic types / consts, thread lists with one or several counts, counters at every level, Bencher::counter / input_counter bodies, bodies that never call bench, ignored leaves) x action in {bench, test, list} x ignore flags x filter sets x byte format; the real output is captured and parsed back with a strict parser; in bench mode the scripted clock makes every sample last exactly 100 ns so every statistic has a closed form; \
           non-trivial = the tree has depth >= 3, a non-last parent with children (bar continuation) and, in bench mode, at least one leaf with continuation rows; distinct by serialized case.",
    assumptions: &[
        "stdout of the real runner is captured by redirecting fd 1; the parser accepts exactly the grammar prefix* (├─ |╰─ ) name [pad cells] plus continuation rows prefix (│| ) pad cells",
        "expected cells are produced with the production formatters (their correctness is C18's subject) from reference values (C03/C05/C15 rules)",
        "exact sample counts are only judged for benchmarks without min_time / max_time (the twin's clock is per thread)",
        "sibling order is judged by C16; C20 judges membership, multiplicity, structure and cells",
    ],
    journal: true,
    timeout_s: (300, 3600),
    nshards: None,
};

#[derive(Clone, Debug, Serialize, Deserialize)]
pub struct Case {
    pub spec: TwinSpec,
    /// "bench" | "test" | "list"
    pub action: String,
    pub filters: Vec<(bool, bool, String)>,
    pub ignored: u8,
    pub runner: OptSpec,
    pub binary: bool,
}

const HEADINGS: [&str; 6] = ["fastest", "slowest", "median", "mean", "samples", "iters"];

fn leaf_rows<'a>(nodes: &'a [PNode]) -> Vec<(Vec<String>, &'a PNode)> {
    fn walk<'a>(n: &'a PNode, path: &mut Vec<String>, out: &mut Vec<(Vec<String>, &'a PNode)>) {
        path.push(n.name.clone());
        if n.children.is_empty() {
            out.push((path.clone(), n));
        } else {
            for c in &n.children {
                walk(c, path, out);
            }
        }
        path.pop();
    }
    let mut out = Vec::new();
    for n in nodes {
        walk(n, &mut Vec::new(), &mut out);
    }
    out
}

pub fn check_case(c: &Case) -> Verdict {
    let Some(rf) = RefFilters::new(&c.filters) else { return Verdict::Inconclusive("pattern".into()) };
    let bench = c.action == "bench";
    let cfg = RunCfg { action: c.action.clone(), filters: c.filters.clone(), ignored: c.ignored, options: c.runner.clone(), binary_bytes: c.binary, ..RunCfg::default() };
    let run = match run_in_process(&c.spec, &cfg) {
        Ok(r) => r,
        Err(e) => return Verdict::Inconclusive(e),
    };
    if let Some(p) = &run.panic {
        return Verdict::fail("runner-panic", format!("the runner panicked: {p}\n{}", run.stdout));
    }
    let tree = twinref::build(&c.spec);
    let cases = twinref::cases(&tree);
    let any_selected = cases.iter().any(|k| rf.selects(&k.path_str()));
    if !any_selected {
        vensure!(run.stdout.trim().is_empty(), "output-for-nothing", "nothing is selected but something was printed:\n{}", run.stdout);
        return Verdict::pass(false);
    }
    // 1. Well-formed.
    let printed = match parse_tree(&run.stdout, bench) {
        Ok(p) => p,
        Err(e) => return Verdict::fail("malformed-tree", format!("{e}\n{}", run.stdout)),
    };
    // 2. Exactly the selected nodes, each once.
    let sel = |k: &RCase| rf.selects(&k.path_str());
    let flag = c.ignored;
    let runner = c.runner.clone();
    let ignored_line = move |k: &RCase| !should_run(flag, k.effective(&runner).ignore.unwrap_or(false));
    let mode = if c.action == "list" { 0 } else { 1 };
    // In list mode ignored leaves are still single lines; in run modes too.
    let expect = expected_nodes(&tree, &sel, &c.runner, mode, &ignored_line);
    let mut all = Vec::new();
    for n in &printed {
        n.walk(&mut Vec::new(), &mut all);
    }
    let got = multiset(all.iter().map(|(p, _)| p.clone()));
    if got != expect {
        let missing: Vec<_> = expect.iter().filter(|(k, v)| got.get(*k) != Some(v)).map(|(k, v)| format!("{} x{v}", k.join("::"))).collect();
        let extra: Vec<_> = got.iter().filter(|(k, v)| expect.get(*k) != Some(v)).map(|(k, v)| format!("{} x{v}", k.join("::"))).collect();
        return Verdict::fail("nodes", format!("the tree does not show exactly the selected entries: missing/miscounted {missing:?}, unexpected/miscounted {extra:?}\n{}", run.stdout));
    }
    // 3. Rows.
    let by_key: BTreeMap<CaseKey, &RCase> = cases.iter().map(|k| (key_of_case(k), k)).collect();
    let rows = leaf_rows(&printed);
    let mut inv_iter = run.invocations.iter();
    let mut with_continuation = false;
    for (path, node) in &rows {
        let is_ignored_row = node.cells.first().map(|c| c == "(ignored)").unwrap_or(false);
        if c.action == "list" {
            if !is_ignored_row {
                vensure!(node.cells.is_empty() && node.extra_rows.is_empty(), "list-cells", "--list shows cells for {path:?}");
            }
            continue;
        }
        if is_ignored_row {
            // Must really be a skipped benchmark.
            let leaf_cases: Vec<&RCase> = cases
                .iter()
                .filter(|k| (k.arg.is_none() && k.path == *path) || (k.arg.is_some() && k.path.len() == path.len() + 1 && k.path[..path.len()] == path[..]))
                .collect();
            // (A benchmark and a module may share a name: at least one leaf of that name must be a skipped one.)
            vensure!(!leaf_cases.is_empty() && leaf_cases.iter().any(|k| !should_run(flag, k.effective(&c.runner).ignore.unwrap_or(false))), "ignored-mark", "{path:?} is marked (ignored) but a run would execute it");
            if bench {
                vensure!(node.cells.len() == 6 && node.cells[1..].iter().all(|x| x.is_empty()), "ignored-cells", "ignored row {path:?} has cells {:?}", node.cells);
            }
            continue;
        }
        let Some(inv) = inv_iter.next() else {
            return Verdict::fail("rows-vs-invocations", format!("row {path:?} has no benchmark invocation behind it\n{}", run.stdout));
        };
        let Some(case) = by_key.get(&key_of_invocation(inv)) else { return Verdict::fail("no-such-case", format!("invocation {inv:?}")) };
        let mut want_path = case.path.clone();
        let counts = thread_counts(&case.effective(&c.runner).threads);
        if counts.len() > 1 {
            want_path.push(format!("t={}", inv.thread_count));
        }
        vensure!(*path == want_path, "row-vs-invocation", "row {path:?} was produced by running {want_path:?}\n{}", run.stdout);
        if !bench {
            vensure!(node.cells.is_empty() && node.extra_rows.is_empty(), "test-cells", "test mode shows cells for {path:?}: {:?}", node.cells);
            continue;
        }
        let body = c.spec.items.iter().find_map(|i| match i {
            Item::Bench(b) if b.uid == inv.uid => Some(b.body),
            _ => None,
        });
        if body == Some(Body::NoRun) {
            vensure!(node.cells.is_empty() && node.extra_rows.is_empty(), "norun-cells", "a benchmark that never ran shows cells: {:?}", node.cells);
            continue;
        }
        vensure!(node.cells.len() == 6, "row-shape", "statistics row of {path:?} has {} cells: {:?}", node.cells.len(), node.cells);
        let eff = case.effective(&c.runner);
        let has_samples = eff.sample_count != Some(0) && eff.sample_size != Some(0) && eff.max_time_ns != Some(0);
        let s = eff.sample_size.unwrap_or(1) as u128;
        let t = inv.thread_count as u64;
        let (samples, iters): (u64, u64) = (node.cells[4].parse().unwrap_or(u64::MAX), node.cells[5].parse().unwrap_or(u64::MAX));
        vensure!(samples != u64::MAX && iters != u64::MAX, "count-cells", "{path:?}: samples/iters cells {:?}/{:?}", node.cells[4], node.cells[5]);
        if !has_samples {
            vensure!(samples == 0 && iters == 0, "count-cells", "{path:?}: no samples can be taken but samples/iters are {samples}/{iters}");
        } else {
            vensure!(iters == samples * s as u64, "count-cells", "{path:?}: iters {iters} != samples {samples} x sample size {s}");
            vensure!(inv.calls == iters, "iters-vs-calls", "{path:?}: iters cell {iters} but the function was called {} times", inv.calls);
            vensure!(samples % t == 0 && samples > 0, "count-cells", "{path:?}: {samples} samples on {t} threads");
            if eff.min_time_ns.is_none() && eff.max_time_ns.is_none() {
                let n = eff.sample_count.unwrap_or(100) as u64;
                let want = t * ((n + t - 1) / t);
                vensure!(samples == want, "count-cells", "{path:?}: samples {samples}, expected T*ceil(n/T) = {want}");
            }
        }
        // Every thread's k-th sample of a benchmark lasts twin_sample_ps(k):
        // the statistics have a closed form (reference of C05).
        let rounds = if has_samples { samples / t } else { 0 };
        let mut durations: Vec<u128> = Vec::new();
        for r in 0..rounds {
            for _ in 0..t {
                durations.push(twin_sample_ps(r));
            }
        }
        durations.sort_unstable();
        let nn = durations.len();
        let stats: [u128; 4] = if nn == 0 {
            [0; 4]
        } else {
            let median = if nn % 2 == 1 { durations[nn / 2] / s } else { ((durations[nn / 2 - 1] + durations[nn / 2]) / 2) / s };
            [durations[0] / s, durations[nn - 1] / s, median, durations.iter().sum::<u128>() / (nn as u128 * s)]
        };
        for i in 0..4 {
            let want = pure::fmt_duration(stats[i], None, None);
            vensure!(node.cells[i] == want, "time-cell", "{path:?}: {} cell is {:?}, the scripted clock gives {want:?} ({rounds} rounds x {t} threads, sample size {s})\n{}", HEADINGS[i], node.cells[i], run.stdout);
        }
        // Continuation rows: one throughput row per counter kind present.
        let mut want_rows: Vec<Vec<String>> = Vec::new();
        if has_samples {
            for k in 0..4 {
                let mut count = eff.counters[k];
                match body {
                    Some(Body::SetsBytesCounter) if k == 0 => count = Some(7),
                    Some(Body::WithInputs) if k == 3 => count = Some(3),
                    _ => {}
                }
                if let Some(v) = count {
                    want_rows.push((0..4).map(|i| pure::fmt_throughput(k, v, stats[i], c.binary)).collect::<Vec<String>>());
                }
            }
        }
        let got_rows: Vec<&Vec<String>> = node.extra_rows.iter().collect();
        vensure!(
            got_rows.len() == want_rows.len(),
            "continuation-rows",
            "{path:?}: {} continuation rows {:?}, expected throughput rows {want_rows:?}\n{}",
            got_rows.len(),
            got_rows,
            run.stdout
        );
        for (g, w) in got_rows.iter().zip(&want_rows) {
            vensure!(g.len() == 6 && g[..4] == w[..] && g[4].is_empty() && g[5].is_empty(), "throughput-cell", "{path:?}: continuation row {g:?}, expected cells {w:?}\n{}", run.stdout);
        }
        if !want_rows.is_empty() {
            with_continuation = true;
        }
    }
    vensure!(inv_iter.next().is_none(), "rows-vs-invocations", "more benchmark bodies ran than rows are shown\n{}", run.stdout);
    // 4. Headings and parent rows.
    if bench {
        for top in &printed {
            vensure!(top.cells.iter().map(|s| s.as_str()).collect::<Vec<_>>() == HEADINGS, "headings", "top-level row {:?} has cells {:?}", top.name, top.cells);
        }
        for (path, node) in &all {
            if !node.children.is_empty() && path.len() > 1 {
                vensure!(node.cells.len() == 6 && node.cells.iter().all(|x| x.is_empty()), "parent-cells", "group row {path:?} has cells {:?}", node.cells);
            }
        }
    }
    let depth = all.iter().map(|(p, _)| p.len()).max().unwrap_or(0);
    fn has_bar(nodes: &[PNode]) -> bool {
        nodes.iter().enumerate().any(|(i, n)| (i + 1 < nodes.len() && !n.children.is_empty()) || has_bar(&n.children))
    }
    let bar = printed.iter().any(|t| has_bar(&t.children));
    classify(format!("{}{}", c.action, if with_continuation { "/continuation" } else { "" }));
    Verdict::pass(depth >= 3 && bar && (!bench || with_continuation))
}

pub fn case() -> impl Strategy<Value = Case> {
    twingen::spec_with(0.3).prop_flat_map(|spec| {
        let f = twingen::filters_for(&spec);
        (
            Just(spec),
            prop_oneof![3 => Just("bench".to_string()), 2 => Just("test".to_string()), 1 => Just("list".to_string())],
            prop_oneof![2 => Just(Vec::new()), 1 => f],
            0u8..=2,
            twingen::opt_spec(0.2),
            any::<bool>(),
        )
            .prop_map(|(mut spec, action, filters, ignored, mut runner, binary)| {
                runner.ignore = None;
                runner.threads = runner.threads.map(normalize_threads_attr);
                // Bounded bench runs.
                runner.sample_count = Some(runner.sample_count.unwrap_or(3).min(7));
                runner.min_time_ns = runner.min_time_ns.map(|v| v.min(1000));
                for item in spec.items.iter_mut() {
                    let m = match item {
                        Item::Bench(b) => &mut b.meta,
                        Item::Group(m) => m,
                    };
                    if let Some(o) = &mut m.options {
                        o.min_time_ns = o.min_time_ns.map(|v| v.min(1000));
                    }
                }
                Case { spec, action, filters, ignored, runner, binary }
            })
    })
}

// ---------------------------------------------------------------------------
// Continuation rows of one benchmark: every combination of present / absent
// throughput rows (per counter kind) and allocation sections (max alloc, alloc,
// dealloc, grow, shrink). Samples are injected into a real `BenchContext`
// (C05's hook), the production painter prints the leaf, and the printed rows
// are compared with the rows the computed statistics call for: a section is
// shown iff one of its figures is non-zero, under the benchmark it belongs to,
// in the documented order, with the values `format_f64` / `format_bytes` /
// `display_throughput` give for each column.

use super::c05::{self, CounterSpec};

fn rows_case() -> impl Strategy<Value = c05::Case> {
    let n = || prop_oneof![3 => 1u64..=8, 2 => 1u64..=100_000, 1 => (0u32..=40).prop_map(|k| 1u64 << k)];
    (1usize..=5).prop_flat_map(move |len| {
        let counter = move || {
            prop_oneof![
                2 => Just(CounterSpec::None),
                1 => (0u64..=1_000_000).prop_map(CounterSpec::Const),
                1 => proptest::collection::vec(0u64..=1_000_000, len..=len).prop_map(CounterSpec::PerInput),
            ]
        };
        (
            proptest::collection::vec(prop_oneof![Just(0u128), 1u128..=50, 1u128..=5_000_000_000_000], len..=len),
            1u32..=4,
            0u8..32,
            proptest::collection::vec((prop::bool::weighted(0.8), proptest::array::uniform10(n())), len..=len),
            [counter(), counter(), counter(), counter()],
            any::<bool>(),
        )
            .prop_map(|(durations, sample_size, mask, raw, counters, binary)| {
                let allocs = raw
                    .into_iter()
                    .map(|(some, v)| {
                        // Sections: bit 0..=3 grow, shrink, alloc, dealloc; bit 4 max alloc.
                        let mut t = [(v[0], v[1]), (v[2], v[3]), (v[4], v[5]), (v[6], v[7]), (v[8], v[9])];
                        for (k, slot) in t.iter_mut().enumerate() {
                            if mask & (1 << k) == 0 {
                                *slot = (0, 0);
                            }
                        }
                        (some && mask != 0).then_some(t)
                    })
                    .collect();
                c05::Case { sample_size, durations, allocs, counters, binary }
            })
    })
}

fn check_leaf_rows(c: &c05::Case) -> Verdict {
    // Last child (corner glyph, blank continuation prefix) or not (branch
    // glyph, continuation rows behind the parent's vertical bar).
    let is_last = c.sample_size % 2 == 1;
    let (st, text) = match c05::inject_and_paint(c, is_last) {
        Ok(r) => r,
        Err(e) if e.starts_with("panic") => return Verdict::fail("paint-panic", format!("painting the leaf {e}")),
        Err(e) => return Verdict::Inconclusive(e),
    };
    let nonzero = |a: &[f64; 4]| a.iter().any(|&x| x != 0.0);
    // A maximum with a count but no bytes: the statement does not say whether it is shown.
    if !nonzero(&st.max_alloc_size) && nonzero(&st.max_alloc_count) {
        return Verdict::pass(false);
    }
    let mut expect: Vec<Vec<String>> = Vec::new();
    let mut counter_rows = 0;
    for k in 0..4 {
        if let Some(counts) = &st.counts[k] {
            expect.push((0..4).map(|col| pure::fmt_throughput(k, counts[col], st.time[col], c.binary)).collect());
            counter_rows += 1;
        }
    }
    let mut sections = 0;
    let mut push_section = |expect: &mut Vec<Vec<String>>, title: &str, count: &[f64; 4], size: &[f64; 4]| {
        expect.push(vec![title.to_string()]);
        expect.push(count.iter().map(|&x| pure::fmt_f64(x, 4)).collect());
        expect.push(size.iter().map(|&x| pure::fmt_bytes(x, 4, c.binary)).collect());
    };
    if nonzero(&st.max_alloc_size) {
        push_section(&mut expect, "max alloc:", &st.max_alloc_count, &st.max_alloc_size);
        sections += 1;
    }
    // Shown in the order alloc, dealloc, grow, shrink (stored as grow, shrink, alloc, dealloc).
    for (title, k) in [("alloc:", 2), ("dealloc:", 3), ("grow:", 0), ("shrink:", 1)] {
        let (count, size) = &st.alloc_tallies[k];
        if nonzero(count) || nonzero(size) {
            push_section(&mut expect, title, count, size);
            sections += 1;
        }
    }
    let lines: Vec<&str> = text.lines().collect();
    if lines.is_empty() {
        return Verdict::fail("no-output", "nothing printed".to_string());
    }
    let cells = |line: &str| -> Vec<String> {
        let mut v: Vec<String> = line.split('│').map(|x| x.trim().to_string()).collect();
        while v.last().map(|x| x.is_empty()).unwrap_or(false) {
            v.pop();
        }
        v
    };
    let glyph = if is_last { '╰' } else { '├' };
    if !lines[0].starts_with(glyph) {
        return Verdict::fail("malformed-tree", format!("a {} child starts with {:?}\n{text}", if is_last { "last" } else { "non-last" }, lines[0].chars().next()));
    }
    let mut got: Vec<Vec<String>> = Vec::new();
    for l in &lines[1..] {
        // Under a non-last child every continuation row continues the bar.
        let rest = if is_last {
            if l.starts_with('│') {
                return Verdict::fail("malformed-tree", format!("continuation row {l:?} of a last child starts with a bar\n{text}"));
            }
            *l
        } else {
            match l.strip_prefix('│') {
                Some(r) => r,
                None => return Verdict::fail("malformed-tree", format!("continuation row {l:?} of a non-last child does not continue the bar\n{text}")),
            }
        };
        got.push(cells(rest));
    }
    let trimmed = |rows: &[Vec<String>]| -> Vec<Vec<String>> {
        rows.iter()
            .map(|r| {
                let mut r = r.clone();
                while r.last().map(|x| x.is_empty()).unwrap_or(false) {
                    r.pop();
                }
                r
            })
            .collect()
    };
    let want = trimmed(&expect);
    if got != want {
        let first = (0..got.len().max(want.len())).find(|&i| got.get(i) != want.get(i)).unwrap_or(0);
        return Verdict::fail(
            "continuation-rows",
            format!("continuation row {first} is {:?}, the statistics call for {:?}\nstatistics: {st:?}\n--- output ---\n{text}", got.get(first), want.get(first)),
        );
    }
    // Continuation rows stay inside the benchmark's block: no branch glyph, no name.
    for l in &lines[1..] {
        if l.contains('├') || l.contains('╰') || l.contains("bench") {
            return Verdict::fail("malformed-tree", format!("continuation row {l:?} looks like a new tree node\n{text}"));
        }
    }
    classify(format!("counter rows {counter_rows}, alloc sections {sections}{}", if is_last { "" } else { ", non-last" }));
    Verdict::pass(sections >= 1 && sections < 5)
}

fn groups(g: &mut Groups) {
    g.prop("twin", 24_000, 1_800_000, || case(), check_case);
    g.prop("leaf_rows", 80_000, 2_000_000, || rows_case(), check_leaf_rows);
}
