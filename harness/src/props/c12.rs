//! C12 — every #[divan::bench] / #[divan::bench_group] item is registered exactly once.
//!
//! Generated programs (real macros, compiled) are compared with the expected
//! registrations computed from the program model alone.

use std::collections::BTreeMap;

use serde::{Deserialize, Serialize};

use super::{
    c13::{expected_nodes, multiset, printed_nodes},
    e3::{self, *},
    twin::*,
    twinref::{self, *},
    PropDef,
};
use crate::{
    engine::{classify, Verdict},
    groups::Groups,
};

pub const DEF: PropDef = PropDef {
    id: "C12",
    groups,
    rule: "randomly generated benchmark crates compiled with the real macros: module trees of depth <= 3, groups with and without custom names and options, plain / Bencher functions, args over arrays, external slices, ranges, Vec, iterator adaptors, String / Box<str> / Cow<str> items, types, consts literal and external (the 20-slot path), types x consts, #[ignore] and ignore = .., name = .., raw identifiers, extern \"C\" functions, functions nested in function bodies; each program is emitted twice (items and modules in opposite textual order); per program: registry dump, --test --include-ignored, --list; plus, on the in-process twin registry, the same items registered in generated permutations of the constructor order (reverse, rotation, shuffles); \
           non-trivial = a program mode pair whose program contains a generic benchmark and an args benchmark and a group; counted per (program, mode); distinct by (program hash, mode).",
    assumptions: &[
        "constructor / link order can only be varied through source order on this one platform (ELF .init_array); Mach-O / COFF sections are not exercised",
        "a generated program that does not compile is a generator fault (exit 2, inconclusive), never a violation",
        "the expected registrations are computed from the program model alone (twinref), the source text is produced by a separate emitter that tracks the line and column of every attribute",
    ],
    journal: false,
    timeout_s: (900, 3600),
    nshards: None,
};

#[derive(Clone, Debug, Serialize, Deserialize)]
struct Case {
    program: usize,
    reversed_source: bool,
    mode: String,
}

fn fmt_opt<T: std::fmt::Debug>(v: &Option<T>) -> String {
    format!("{v:?}")
}

/// How the emitted attribute's thread list ends up in BenchOptions.
fn threads_as_registered(t: &[usize], form: u32) -> Vec<usize> {
    match (t.len(), form % 3) {
        (1, 0) => vec![t[0]],
        (_, 1) => normalize_threads_attr(t.to_vec()),
        // A literal array is stored as written.
        _ => t.to_vec(),
    }
}

fn options_string(o: &Option<OptSpec>, form: u32) -> String {
    let Some(o) = o else { return "-".into() };
    if o.is_empty() {
        return "-".into();
    }
    let threads = o.threads.as_ref().map(|t| threads_as_registered(t, form));
    format!(
        "{}|{}|{}|CounterSet {{ counts: {:?} }}|{}|{}|{}|{}",
        fmt_opt(&o.sample_count),
        fmt_opt(&o.sample_size),
        fmt_opt(&threads.as_deref()),
        o.counters,
        fmt_opt(&o.min_time_ns.map(|v| v as u128)),
        fmt_opt(&o.max_time_ns.map(|v| v as u128)),
        fmt_opt(&o.skip_ext_time),
        fmt_opt(&o.ignore)
    )
}

type DumpRow = (String, String, String, String, String, Option<(u32, u32)>, String, String);

fn expected_dump(spec: &TwinSpec, with_locations: bool) -> BTreeMap<DumpRow, usize> {
    let mut rows = Vec::new();
    for item in &spec.items {
        match item {
            Item::Bench(b) => {
                let loc = if with_locations { Some((b.meta.loc.line, b.meta.loc.col)) } else { None };
                let file = b.meta.loc.file.clone();
                if !b.is_generic() {
                    rows.push(("bench".to_string(), b.meta.display_name(), b.meta.raw_name.clone(), b.meta.module_path.join("::"), file, loc, "None".to_string(), options_string(&b.meta.options, b.uid)));
                } else {
                    let t = b.types.as_ref().map(|t| t.len());
                    let c = b.consts.as_ref().map(|c| c.len());
                    let only_empty = matches!((t, c), (Some(0), None) | (None, Some(0)));
                    if only_empty {
                        continue;
                    }
                    let (outer, total) = match (t, c) {
                        (Some(t), None) => (1, t),
                        (None, Some(c)) => (1, c),
                        (Some(t), Some(c)) => (t, t * c),
                        _ => unreachable!(),
                    };
                    rows.push(("group".to_string(), b.meta.display_name(), b.meta.raw_name.clone(), b.meta.module_path.join("::"), file, loc, format!("Some(({outer}, {total}))"), options_string(&b.meta.options, b.uid)));
                }
            }
            Item::Group(m) => {
                let loc = if with_locations { Some((m.loc.line, m.loc.col)) } else { None };
                rows.push(("group".to_string(), m.display_name(), m.raw_name.clone(), m.module_path.join("::"), m.loc.file.clone(), loc, "None".to_string(), options_string(&m.options, m.raw_name.len() as u32)));
            }
        }
    }
    multiset(rows)
}

fn parse_dump(text: &str, with_locations: bool) -> BTreeMap<DumpRow, usize> {
    let mut rows = Vec::new();
    for line in text.lines() {
        let parts: Vec<&str> = line.splitn(10, '|').collect();
        if parts.len() < 10 || parts[0] != "D" {
            continue;
        }
        let un = |s: &str| s.replace("\\n", "\n").replace("\\p", "|").replace("\\\\", "\\");
        let loc = if with_locations { Some((parts[6].parse().unwrap_or(0), parts[7].parse().unwrap_or(0))) } else { None };
        rows.push((parts[1].to_string(), un(parts[2]), un(parts[3]), un(parts[4]), un(parts[5]), loc, parts[8].to_string(), parts[9].to_string()));
    }
    multiset(rows)
}

fn diff<T: Ord + Clone + std::fmt::Debug>(got: &BTreeMap<T, usize>, want: &BTreeMap<T, usize>) -> String {
    let missing: Vec<_> = want.iter().filter(|(k, v)| got.get(*k) != Some(v)).map(|(k, v)| format!("{k:?} x{v}")).collect();
    let extra: Vec<_> = got.iter().filter(|(k, v)| want.get(*k) != Some(v)).map(|(k, v)| format!("{k:?} x{v}")).collect();
    format!("missing or miscounted: {missing:#?}\nunexpected or miscounted: {extra:#?}")
}

fn check(built: &Built, c: &Case) -> Verdict {
    let (spec, exe) = if c.reversed_source { (&built.rev_specs[c.program], &built.exes[c.program].1) } else { (&built.specs[c.program], &built.exes[c.program].0) };
    let src = e3::progs_dir().join(format!("benches/p{}{}.rs", c.program, if c.reversed_source { "r" } else { "" }));
    let tag = format!("c12-{}", std::process::id());
    let tree = twinref::build(spec);
    let cases = twinref::cases(&tree);
    let fail = |sig: &str, msg: String| Verdict::fail(sig, format!("{msg}\nprogram: {}", src.display()));
    match c.mode.as_str() {
        "dump" => {
            let run = run_prog(exe, &[], &[("VERIF_MAIN", "dump")], &tag);
            if run.code != 0 {
                return fail("program-exit", format!("exit code {}: {}", run.code, run.stderr));
            }
            let got = parse_dump(&run.stdout, true);
            let want = expected_dump(spec, true);
            if got != want {
                // Tell a wrong location apart from a wrong registration.
                let sig = if parse_dump(&run.stdout, false) == expected_dump(spec, false) { "registry:location" } else { "registry" };
                return fail(sig, format!("registered entries differ from the source (kind, display name, raw name, module path, file, line:col, generic dimensions, options)\n{}", diff(&got, &want)));
            }
        }
        "test" | "list" => {
            let args: Vec<&str> = if c.mode == "test" { vec!["--test", "--include-ignored"] } else { vec!["--list"] };
            let run = run_prog(exe, &args, &[], &tag);
            if run.code != 0 {
                return fail("program-exit", format!("exit code {}: {}", run.code, run.stderr));
            }
            let printed = match printed_nodes(&run.stdout, false) {
                Ok(p) => p,
                Err(e) => return fail("malformed-tree", format!("{e}\n{}", run.stdout)),
            };
            let all = |_: &RCase| true;
            let never = |_: &RCase| false;
            let want = expected_nodes(&tree, &all, &OptSpec::default(), if c.mode == "test" { 1 } else { 0 }, &never);
            if printed != want {
                return fail(if c.mode == "test" { "cases-run" } else { "cases-listed" }, format!("the {} output does not show exactly the declared cases\n{}\n{}", c.mode, diff(&printed, &want), run.stdout));
            }
            if c.mode == "test" {
                match judge_c17(spec, &run) {
                    Ok(_) => {}
                    Err((sig, _)) if sig == "__inconclusive" => {}
                    Err((sig, msg)) => return fail(&format!("invocations:{sig}"), msg),
                }
            } else if !run.hits.is_empty() {
                return fail("list-runs", format!("--list invoked {} functions", run.hits.len()));
            }
        }
        "metamorphic" => {
            // The same items in the opposite textual (= constructor) order.
            let (fwd, rev) = (&built.exes[c.program].0, &built.exes[c.program].1);
            let strip = |m: BTreeMap<DumpRow, usize>| -> BTreeMap<_, usize> {
                multiset(m.into_iter().flat_map(|((kind, d, r, mp, _f, _l, g, o), n)| {
                    // Crate name differs between the two programs.
                    let mp = mp.splitn(2, "::").nth(1).unwrap_or("").to_string();
                    std::iter::repeat((kind, d, r, mp, g, o)).take(n)
                }))
            };
            let a = strip(parse_dump(&run_prog(fwd, &[], &[("VERIF_MAIN", "dump")], &tag).stdout, false));
            let b = strip(parse_dump(&run_prog(rev, &[], &[("VERIF_MAIN", "dump")], &tag).stdout, false));
            if a != b {
                return fail("order-dependent", format!("the registry depends on the textual / constructor order of the items\n{}", diff(&a, &b)));
            }
            let lines = |exe| {
                let out = run_prog(exe, &["--list", "--format", "terse", "--include-ignored"], &[("NEXTEST", "1")], &tag).stdout;
                multiset(out.lines().map(|l| l.splitn(2, "::").nth(1).unwrap_or(l).to_string()))
            };
            let (la, lb) = (lines(fwd), lines(rev));
            if la != lb {
                return fail("order-dependent", format!("the set of cases depends on the textual / constructor order of the items\n{}", diff(&la, &lb)));
            }
        }
        _ => return Verdict::Inconclusive("mode".into()),
    }
    let has_generic = spec.items.iter().any(|i| matches!(i, Item::Bench(b) if b.is_generic()));
    let has_args = spec.items.iter().any(|i| matches!(i, Item::Bench(b) if b.args.is_some()));
    let has_group = spec.items.iter().any(|i| matches!(i, Item::Group(_)));
    classify(format!("{}{}", c.mode, if c.reversed_source { "/reversed-source" } else { "" }));
    let _ = cases;
    Verdict::pass(has_generic && has_args && has_group)
}

/// Registration (constructor / link) order is an input of the twin: the same
/// items pushed in a different order must give the same cases, the same shown
/// nodes and the same effective options.
#[derive(Clone, Debug, Serialize, Deserialize)]
struct OrderCase {
    spec: TwinSpec,
    /// 0 reverse, 1 rotate, 2.. pseudo-random shuffle
    permutation: u32,
}

fn permute(spec: &TwinSpec, p: u32) -> TwinSpec {
    let mut items = spec.items.clone();
    match p {
        0 => items.reverse(),
        1 => {
            if !items.is_empty() {
                items.rotate_left(1)
            }
        }
        _ => {
            // Fisher-Yates with a tiny LCG.
            let mut x = (p as u64).wrapping_mul(6364136223846793005).wrapping_add(1442695040888963407);
            for i in (1..items.len()).rev() {
                x = x.wrapping_mul(6364136223846793005).wrapping_add(1442695040888963407);
                let j = (x >> 33) as usize % (i + 1);
                items.swap(i, j);
            }
        }
    }
    TwinSpec { items }
}

fn check_order(c: &OrderCase) -> Verdict {
    let cfg = RunCfg { action: "test".into(), ignored: 2, ..RunCfg::default() };
    let mut keyed: Vec<BTreeMap<(u32, Option<String>, Option<String>, Option<String>, usize), (Option<bool>, Option<u32>, Option<u32>, [Option<u64>; 4])>> = Vec::new();
    for spec in [c.spec.clone(), permute(&c.spec, c.permutation)] {
        let run = match run_in_process(&spec, &cfg) {
            Ok(r) => r,
            Err(e) => return Verdict::Inconclusive(e),
        };
        // Each order on its own must match the model: cases, shown nodes, options.
        match super::c13::judge_selection(&spec, &[], &run, None) {
            Ok(_) => {}
            Err((sig, msg)) if sig == "__inconclusive" => return Verdict::Inconclusive(msg),
            Err((sig, msg)) => return Verdict::fail(format!("registration:{sig}"), format!("{msg}\nregistration order: {:?}", spec.items.iter().map(|i| match i { Item::Bench(b) => format!("fn {}::{}", b.meta.module_path.join("::"), b.meta.raw_name), Item::Group(m) => format!("group {}::{}", m.module_path.join("::"), m.raw_name) }).collect::<Vec<_>>())),
        }
        if let Err((sig, msg)) = super::c15::judge(&spec, &OptSpec::default(), 2, false, &run) {
            return Verdict::fail(format!("registration:{sig}"), msg);
        }
        keyed.push(run.invocations.iter().map(|i| ((i.uid, i.type_label.clone(), i.const_label.clone(), i.arg.clone(), i.thread_count), (i.ignore, i.sample_count, i.sample_size, i.counters))).collect());
    }
    if keyed[0] != keyed[1] {
        return Verdict::fail("order-dependent", format!("the cases or their options depend on the registration order\n{}", diff(&keyed[0].iter().map(|(k, v)| ((k.clone(), format!("{v:?}")), 1usize)).collect(), &keyed[1].iter().map(|(k, v)| ((k.clone(), format!("{v:?}")), 1usize)).collect())));
    }
    let names_clash = {
        let fns: Vec<(&Vec<String>, &String)> = c.spec.items.iter().filter_map(|i| match i { Item::Bench(b) => Some((&b.meta.module_path, &b.meta.raw_name)), _ => None }).collect();
        c.spec.items.iter().any(|i| match i {
            Item::Bench(b) => fns.iter().any(|(p, n)| b.meta.module_path.len() == p.len() + 1 && b.meta.module_path[..p.len()] == p[..] && b.meta.module_path.last() == Some(*n)),
            _ => false,
        })
    };
    if names_clash {
        classify("fn-and-module-share-a-name");
    }
    Verdict::pass(c.spec.items.len() >= 3)
}

fn groups(g: &mut Groups) {
    use proptest::prelude::*;
    g.prop("registration_order", 8_000, 800_000, || (super::twingen::spec_with(0.3), 0u32..=12).prop_map(|(spec, permutation)| OrderCase { spec, permutation }), check_order);
    if !g.is_run() || g.ctx.shard != 0 {
        return;
    }
    let ctx = g.ctx;
    let built = match e3::built(ctx) {
        Ok(b) => b,
        Err(e) => {
            // The hand-written program (p0 / p0r: every special form of the
            // macros, at their documented limits) compiles on the unchanged
            // tree; if *it* is rejected, divan rejects valid benchmark items.
            // Any other build failure is the generator's problem (exit 2).
            let in_golden = e.contains("--> benches/p0.rs") || e.contains("--> benches/p0r.rs");
            let in_generated = e.lines().any(|l| l.trim_start().starts_with("--> benches/p") && !l.contains("benches/p0.rs") && !l.contains("benches/p0r.rs"));
            if in_golden && !in_generated {
                g.enumerate_local("programs", vec![Case { program: 0, reversed_source: false, mode: "build".into() }], |_| {
                    Verdict::fail("golden-program-rejected", format!("the hand-written program with every supported form no longer compiles:\n{e}"))
                });
            } else {
                ctx.note(format!("INFRA: e3 programs unavailable: {e}"));
            }
            return;
        }
    };
    let mut cases = Vec::new();
    for program in 0..built.specs.len() {
        for reversed_source in [false, true] {
            for mode in ["dump", "test", "list"] {
                cases.push(Case { program, reversed_source, mode: mode.to_string() });
            }
        }
        cases.push(Case { program, reversed_source: false, mode: "metamorphic".into() });
    }
    g.enumerate_local("programs", cases, |c: &Case| check(&built, c));
}
