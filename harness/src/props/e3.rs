//! E3: generated programs that use the real `#[divan::bench]` /
//! `#[divan::bench_group]` macros. A twin spec is emitted as Rust source
//! (tracking the line/column of every attribute), compiled as a `harness =
//! false` bench target of the package in /verif/progs, and the binary is run
//! with real command lines. Serves C12 (registration) and the macro level of
//! C17 (argument / const / type glue).

use std::{
    collections::BTreeMap,
    path::{Path, PathBuf},
    process::Command,
};

use proptest::{
    strategy::{Strategy, ValueTree},
    test_runner::{Config, RngAlgorithm, TestRng, TestRunner},
};
use serde::{Deserialize, Serialize};

use super::{
    c13::{expected_nodes, multiset, printed_nodes},
    twin::*,
    twingen,
    twinref::{self, *},
};
use crate::{
    engine::{classify, Ctx, Tier, Verdict, VERIF_DIR},
    groups::Groups,
};

// ---------------------------------------------------------------------------
// Emitter

#[derive(Default)]
struct MNode {
    raw: String,
    group: Option<Meta>,
    benches: Vec<BenchSpec>,
    mods: Vec<MNode>,
}

fn module_tree(spec: &TwinSpec) -> MNode {
    fn at<'a>(root: &'a mut MNode, path: &[String]) -> &'a mut MNode {
        let mut cur = root;
        for comp in path {
            if !cur.mods.iter().any(|m| m.raw == *comp) {
                cur.mods.push(MNode { raw: comp.clone(), ..MNode::default() });
            }
            cur = cur.mods.iter_mut().find(|m| m.raw == *comp).unwrap();
        }
        cur
    }
    let mut root = MNode::default();
    for item in &spec.items {
        match item {
            Item::Bench(b) => at(&mut root, &b.meta.module_path[1..]).benches.push(b.clone()),
            Item::Group(m) => {
                let mut path = m.module_path[1..].to_vec();
                path.push(m.raw_name.clone());
                at(&mut root, &path).group = Some(m.clone());
            }
        }
    }
    root
}

fn lit_str(s: &str) -> String {
    format!("{s:?}")
}

fn options_attr(o: &OptSpec, uid_for_form: u32) -> Vec<String> {
    let mut v = Vec::new();
    if let Some(x) = o.sample_count {
        v.push(format!("sample_count = {x}"));
    }
    if let Some(x) = o.sample_size {
        v.push(format!("sample_size = {x}"));
    }
    if let Some(t) = &o.threads {
        let list = t.iter().map(|x| x.to_string()).collect::<Vec<_>>().join(", ");
        let typed = t.iter().map(|x| format!("{x}usize")).collect::<Vec<_>>().join(", ");
        match (t.len(), uid_for_form % 3) {
            (1, 0) => v.push(format!("threads = {}", t[0])),
            (_, 1) => v.push(format!("threads = Vec::<usize>::from([{typed}])")),
            _ => v.push(format!("threads = [{list}]")),
        }
    }
    for (k, name) in ["bytes_count", "chars_count", "cycles_count", "items_count"].iter().enumerate() {
        if let Some(x) = o.counters[k] {
            v.push(format!("{name} = {x}u64"));
        }
    }
    if let Some(x) = o.min_time_ns {
        v.push(format!("min_time = std::time::Duration::from_nanos({x})"));
    }
    if let Some(x) = o.max_time_ns {
        v.push(format!("max_time = std::time::Duration::from_nanos({x})"));
    }
    if let Some(x) = o.skip_ext_time {
        v.push(format!("skip_ext_time = {x}"));
    }
    if let Some(x) = o.ignore {
        v.push(format!("ignore = {x}"));
    }
    v
}

fn type_path(i: u8) -> &'static str {
    match i as usize % TYPE_POOL_LEN {
        0 => "crate::rt::Alpha",
        1 => "crate::rt::Beta",
        2 => "crate::rt::inner::Gamma",
        3 => "crate::rt::inner::deeper::Delta",
        4 => "crate::rt::Wrap<4>",
        5 => "crate::rt::Wrap<16>",
        6 => "i32",
        7 => "String",
        8 => "Vec<i32>",
        _ => "crate::rt::Alpha",
    }
}

/// Types the emitter can express (index 9 of the twin pool depends on the crate name).
pub fn e3_normalize(spec: &mut TwinSpec, krate: &str) {
    for item in spec.items.iter_mut() {
        match item {
            Item::Bench(b) => {
                b.meta.module_path[0] = krate.to_string();
                if let Some(t) = &mut b.types {
                    for x in t.iter_mut() {
                        if *x as usize % TYPE_POOL_LEN == 9 {
                            *x = 0;
                        }
                    }
                    let mut seen = Vec::new();
                    t.retain(|x| {
                        let k = *x as usize % TYPE_POOL_LEN;
                        if seen.contains(&k) {
                            false
                        } else {
                            seen.push(k);
                            true
                        }
                    });
                }
                // External constant lists may have up to 20 values (the macro
                // instantiates 20 slots and truncates).
                if let Some(ConstList::Usize(v)) = &mut b.consts {
                    if b.uid % 3 == 0 && !v.is_empty() && b.types.is_none() {
                        let want = [20usize, 19, 7][(b.uid as usize / 3) % 3];
                        let mut next = 1000;
                        while v.len() < want {
                            v.push(next);
                            next += 7;
                        }
                    }
                }
                // `types = []` together with consts registers an empty group
                // entry (nothing runnable): keep the model simple.
                if b.types.as_ref().map(|t| t.is_empty()).unwrap_or(false) {
                    b.consts = None;
                }
                if b.consts.as_ref().map(|c| c.len() == 0).unwrap_or(false) && b.types.is_some() {
                    b.consts = None;
                }
            }
            Item::Group(m) => m.module_path[0] = krate.to_string(),
        }
    }
}

/// Whether the emitted function takes a `Bencher` (its body then logs once per
/// run; a plain function logs every time it is called).
pub fn uses_bencher(b: &BenchSpec) -> bool {
    matches!(b.body, Body::WithInputs | Body::SetsBytesCounter | Body::NoRun) || b.uid % 4 == 1
}

struct Emitter {
    lines: Vec<String>,
    file: String,
    /// uid -> (line, col) of the `#[divan::bench]` attribute; groups by (path, raw).
    bench_locs: BTreeMap<u32, (u32, u32)>,
    group_locs: BTreeMap<(Vec<String>, String), (u32, u32)>,
    externs: Vec<String>,
}

impl Emitter {
    fn push(&mut self, indent: usize, text: &str) -> (u32, u32) {
        self.lines.push(format!("{}{}", " ".repeat(indent), text));
        (self.lines.len() as u32, indent as u32 + 1)
    }

    fn bench(&mut self, indent: usize, b: &BenchSpec) {
        let uid = b.uid;
        let mut attr: Vec<String> = Vec::new();
        if let Some(n) = &b.meta.custom_name {
            attr.push(format!("name = {}", lit_str(n)));
        }
        let mut ignore_attr = false;
        if let Some(o) = &b.meta.options {
            let mut o = o.clone();
            // `#[ignore]` is the other way of writing ignore = true.
            if o.ignore == Some(true) && uid % 2 == 0 {
                ignore_attr = true;
                o.ignore = None;
            }
            attr.extend(options_attr(&o, uid));
        }
        // Generics.
        let mut generics: Vec<String> = Vec::new();
        let mut ty_expr = "\"\"".to_string();
        let mut cst_expr = "\"\"".to_string();
        if let Some(t) = &b.types {
            attr.push(format!("types = [{}]", t.iter().map(|&x| type_path(x)).collect::<Vec<_>>().join(", ")));
            generics.push("T: 'static".into());
            ty_expr = "std::any::type_name::<T>()".into();
        }
        if let Some(c) = &b.consts {
            let (ty, lits): (&str, Vec<String>) = match c {
                ConstList::Usize(v) => ("usize", v.iter().map(|x| x.to_string()).collect()),
                ConstList::I32(v) => ("i32", v.iter().map(|x| x.to_string()).collect()),
                ConstList::Char(v) => ("char", v.iter().map(|x| format!("{x:?}")).collect()),
                ConstList::Bool(v) => ("bool", v.iter().map(|x| x.to_string()).collect()),
            };
            if uid % 3 == 0 && !lits.is_empty() {
                // External constant (non-literal expression): the 20-slot path.
                self.externs.push(format!("pub const CONSTS_{uid}: [{ty}; {}] = [{}];", lits.len(), lits.join(", ")));
                attr.push(format!("consts = crate::CONSTS_{uid}"));
            } else {
                attr.push(format!("consts = [{}]", lits.join(", ")));
            }
            if uid % 2 == 0 {
                generics.insert(0, format!("const N: {ty}"));
            } else {
                generics.push(format!("const N: {ty}"));
            }
            cst_expr = "&N.to_string()".into();
        }
        // Arguments.
        let mut params: Vec<String> = Vec::new();
        let mut arg_expr = "\"\"".to_string();
        let uses_bencher = uses_bencher(b);
        if uses_bencher {
            params.push("bencher: divan::Bencher".into());
        }
        if let Some(args) = &b.args {
            let (param_ty, expr): (String, String) = match args {
                ArgList::Ints(v) => {
                    let lits = v.iter().map(|x| x.to_string()).collect::<Vec<_>>().join(", ");
                    let consecutive = v.len() >= 2 && v.windows(2).all(|w| w[0].checked_add(1) == Some(w[1]));
                    let e = if v.is_empty() {
                        "[]".to_string()
                    } else {
                        match uid % 5 {
                            0 => format!("[{lits}]"),
                            1 => {
                                self.externs.push(format!("pub const ARGS_{uid}: &[i64] = &[{lits}];"));
                                format!("crate::ARGS_{uid}")
                            }
                            2 => format!("Vec::<i64>::from([{lits}])"),
                            3 if consecutive => format!("({}i64..={}i64)", v[0], v[v.len() - 1]),
                            3 => format!("[{lits}].iter().copied()"),
                            _ => format!("[{lits}].map(|x: i64| x)"),
                        }
                    };
                    ("i64".into(), e)
                }
                ArgList::Floats(v) => {
                    let lits = v.iter().map(|x| format!("{x:?}")).collect::<Vec<_>>().join(", ");
                    ("f64".into(), if v.is_empty() { "[]".into() } else { format!("[{lits}]") })
                }
                ArgList::Strs(v) => {
                    let lits = v.iter().map(|x| lit_str(x)).collect::<Vec<_>>().join(", ");
                    if v.is_empty() {
                        ("&str".into(), "[]".into())
                    } else {
                        match uid % 5 {
                            0 => ("&str".into(), format!("[{lits}]")),
                            1 => {
                                self.externs.push(format!("pub const ARGS_{uid}: &[&str] = &[{lits}];"));
                                ("&str".into(), format!("crate::ARGS_{uid}"))
                            }
                            2 => ("&str".into(), format!("[{lits}].map(String::from).to_vec()")),
                            3 => ("&Box<str>".into(), format!("[{lits}].map(Box::<str>::from)")),
                            _ => ("&str".into(), format!("[{lits}].map(std::borrow::Cow::<'static, str>::Borrowed)")),
                        }
                    }
                }
            };
            params.push(format!("arg: {param_ty}"));
            arg_expr = "&arg.to_string()".into();
            if args.len() == 0 {
                attr.push(format!("args = {expr}"));
            } else {
                attr.push(format!("args = {{ crate::rt::bump({uid}); {expr} }}"));
            }
        }
        let generics = if generics.is_empty() { String::new() } else { format!("<{}>", generics.join(", ")) };
        let attr_text = if attr.is_empty() { "#[divan::bench]".to_string() } else { format!("#[divan::bench({})]", attr.join(", ")) };
        // Nest some plain functions inside another function's body.
        let nested = b.args.is_none() && !b.is_generic() && uid % 7 == 3;
        let mut ind = indent;
        if nested {
            self.push(ind, &format!("fn outer_{uid}() {{"));
            ind += 4;
        }
        let loc = self.push(ind, &attr_text);
        self.bench_locs.insert(uid, loc);
        if ignore_attr {
            // Bare and `= "reason"` forms alternate.
            self.push(ind, if uid % 4 == 0 { "#[ignore = \"not on this machine\"]" } else { "#[ignore]" });
        }
        let abi = if !uses_bencher && b.args.is_none() && !b.is_generic() && uid % 5 == 2 { "extern \"C\" " } else { "" };
        let body = if uses_bencher {
            let run = match b.body {
                Body::NoRun => "drop(bencher);".to_string(),
                Body::WithInputs => "bencher.with_inputs(|| 3usize).input_counter(|n: &usize| divan::counter::ItemsCount::new(*n)).bench_values(|n| n);".to_string(),
                Body::SetsBytesCounter => "bencher.counter(divan::counter::BytesCount::new(7u64)).bench(|| ());".to_string(),
                Body::Bench => "bencher.bench(|| ());".to_string(),
            };
            format!("crate::rt::hit_b({uid}, {ty_expr}, {cst_expr}, {arg_expr}, &bencher); {run}")
        } else {
            format!("crate::rt::hit({uid}, {ty_expr}, {cst_expr}, {arg_expr});")
        };
        self.push(ind, &format!("pub {abi}fn {}{generics}({}) {{ {body} }}", b.meta.raw_name, params.join(", ")));
        if nested {
            self.push(indent, "}");
        }
    }

    fn module(&mut self, indent: usize, m: &MNode, path: &mut Vec<String>, reverse: bool) {
        let mut benches: Vec<&BenchSpec> = m.benches.iter().collect();
        let mut mods: Vec<&MNode> = m.mods.iter().collect();
        if reverse {
            benches.reverse();
            mods.reverse();
        }
        let emit_benches = |this: &mut Emitter| {
            for b in &benches {
                this.bench(indent, b);
            }
        };
        if !reverse {
            emit_benches(self);
        }
        for sub in mods {
            if let Some(g) = &sub.group {
                let mut attr: Vec<String> = Vec::new();
                if let Some(n) = &g.custom_name {
                    attr.push(format!("name = {}", lit_str(n)));
                }
                let mut ignore_attr = false;
                if let Some(o) = &g.options {
                    let mut o = o.clone();
                    // `#[ignore]` on the module is the other way of writing ignore = true.
                    if o.ignore == Some(true) && sub.raw.len() % 2 == 1 {
                        ignore_attr = true;
                        o.ignore = None;
                    }
                    attr.extend(options_attr(&o, sub.raw.len() as u32));
                }
                let text = if attr.is_empty() { "#[divan::bench_group]".to_string() } else { format!("#[divan::bench_group({})]", attr.join(", ")) };
                let loc = self.push(indent, &text);
                self.group_locs.insert((path.clone(), sub.raw.clone()), loc);
                if ignore_attr {
                    self.push(indent, if sub.raw.len() % 4 == 1 { "#[ignore = \"slow\"]" } else { "#[ignore]" });
                }
            }
            self.push(indent, &format!("pub mod {} {{", sub.raw));
            path.push(sub.raw.clone());
            self.module(indent + 4, sub, path, reverse);
            path.pop();
            self.push(indent, "}");
        }
        if reverse {
            emit_benches(self);
        }
    }
}

/// Emits the program; returns the source and the spec with real locations.
pub fn emit(spec: &TwinSpec, krate: &str, reverse: bool) -> (String, TwinSpec) {
    let file = format!("benches/{krate}.rs");
    let mut e = Emitter { lines: Vec::new(), file: file.clone(), bench_locs: BTreeMap::new(), group_locs: BTreeMap::new(), externs: Vec::new() };
    e.push(0, "#![allow(dead_code, non_snake_case, unused, non_upper_case_globals, unused_attributes)]");
    e.push(0, "#[path = \"../rt.rs\"]");
    e.push(0, "pub mod rt;");
    e.push(0, "fn main() { rt::main() }");
    let tree = module_tree(spec);
    e.module(0, &tree, &mut vec![krate.to_string()], reverse);
    let externs = std::mem::take(&mut e.externs);
    for x in externs {
        e.push(0, &x);
    }
    let mut out = spec.clone();
    for item in out.items.iter_mut() {
        match item {
            Item::Bench(b) => {
                let (line, col) = e.bench_locs[&b.uid];
                b.meta.loc = Loc { file: file.clone(), line, col };
            }
            Item::Group(m) => {
                if let Some(&(line, col)) = e.group_locs.get(&(m.module_path.clone(), m.raw_name.clone())) {
                    m.loc = Loc { file: file.clone(), line, col };
                }
            }
        }
    }
    (e.lines.join("\n") + "\n", out)
}

// ---------------------------------------------------------------------------
// Building

pub fn progs_dir() -> PathBuf {
    Path::new(VERIF_DIR).join("progs")
}

/// Writes the package manifest and sources, builds all bench targets, and
/// returns the executable of each program.
pub fn build(programs: &[(String, String)]) -> Result<BTreeMap<String, PathBuf>, String> {
    let dir = progs_dir();
    let benches = dir.join("benches");
    let _ = std::fs::remove_dir_all(&benches);
    std::fs::create_dir_all(&benches).map_err(|e| e.to_string())?;
    let mut manifest = String::from(
        "[package]\nname = \"progs\"\nversion = \"0.0.0\"\nedition = \"2021\"\npublish = false\n\n[workspace]\n\n[dependencies]\ndivan = { path = \"/repo\" }\n\n[profile.release]\nopt-level = 2\ndebug = false\ncodegen-units = 16\nincremental = true\npanic = \"unwind\"\noverflow-checks = false\ndebug-assertions = false\n\n",
    );
    for (name, source) in programs {
        std::fs::write(benches.join(format!("{name}.rs")), source).map_err(|e| e.to_string())?;
        manifest.push_str(&format!("[[bench]]\nname = \"{name}\"\npath = \"benches/{name}.rs\"\nharness = false\n\n"));
    }
    std::fs::write(dir.join("Cargo.toml"), manifest).map_err(|e| e.to_string())?;
    let _ = std::fs::copy("/repo/Cargo.lock", dir.join("Cargo.lock"));
    let out = Command::new("cargo")
        .current_dir(&dir)
        .env("CARGO_NET_OFFLINE", "true")
        .args(["build", "--release", "--offline", "--benches", "--message-format=json"])
        .output()
        .map_err(|e| e.to_string())?;
    let mut exes = BTreeMap::new();
    for line in String::from_utf8_lossy(&out.stdout).lines() {
        let Ok(v) = serde_json::from_str::<serde_json::Value>(line) else { continue };
        if v["reason"] == "compiler-artifact" {
            if let (Some(name), Some(exe)) = (v["target"]["name"].as_str(), v["executable"].as_str()) {
                exes.insert(name.to_string(), PathBuf::from(exe));
            }
        }
    }
    if !out.status.success() {
        let stderr = String::from_utf8_lossy(&out.stderr);
        let rendered: Vec<String> = String::from_utf8_lossy(&out.stdout)
            .lines()
            .filter_map(|l| serde_json::from_str::<serde_json::Value>(l).ok())
            .filter(|v| v["reason"] == "compiler-message" && v["message"]["level"] == "error")
            .filter_map(|v| v["message"]["rendered"].as_str().map(|s| s.to_string()))
            .take(3)
            .collect();
        return Err(format!("generated programs do not compile (generator bug or divan no longer builds):\n{}\n{}", rendered.join("\n"), stderr.lines().rev().take(5).collect::<Vec<_>>().join("\n")));
    }
    Ok(exes)
}

// ---------------------------------------------------------------------------
// Running

#[derive(Clone, Debug, Default)]
pub struct ProgRun {
    pub stdout: String,
    pub stderr: String,
    pub code: i32,
    /// (uid, type name, const, arg, thread_count)
    pub hits: Vec<(u32, String, String, String, usize)>,
    pub arg_evals: BTreeMap<u32, u32>,
}

fn unesc(s: &str) -> String {
    s.replace("\\n", "\n").replace("\\p", "|").replace("\\\\", "\\")
}

pub fn run_prog(exe: &Path, args: &[&str], env: &[(&str, &str)], tag: &str) -> ProgRun {
    let log = Path::new(VERIF_DIR).join("target").join("twin").join(format!("{tag}.e3log"));
    let _ = std::fs::create_dir_all(log.parent().unwrap());
    let _ = std::fs::remove_file(&log);
    let mut cmd = Command::new(exe);
    cmd.args(args).env_clear().env("VERIF_LOG", &log);
    for (k, v) in env {
        cmd.env(k, v);
    }
    let out = match cmd.output() {
        Ok(o) => o,
        Err(e) => return ProgRun { stderr: e.to_string(), code: -1, ..ProgRun::default() },
    };
    let mut run = ProgRun { stdout: String::from_utf8_lossy(&out.stdout).into(), stderr: String::from_utf8_lossy(&out.stderr).into(), code: out.status.code().unwrap_or(-1), ..ProgRun::default() };
    if let Ok(text) = std::fs::read_to_string(&log) {
        for line in text.lines() {
            let parts: Vec<&str> = line.split('|').collect();
            match parts.first() {
                Some(&"H") if parts.len() >= 6 => {
                    run.hits.push((parts[1].parse().unwrap_or(0), unesc(parts[2]), unesc(parts[3]), unesc(parts[4]), parts[5].parse().unwrap_or(0)));
                }
                Some(&"E") if parts.len() >= 2 => *run.arg_evals.entry(parts[1].parse().unwrap_or(0)).or_default() += 1,
                _ => {}
            }
        }
    }
    let _ = std::fs::remove_file(&log);
    run
}

/// Display form of `std::any::type_name`: module path removed up to a generic
/// boundary.
pub fn type_label_of(type_name: &str) -> Option<String> {
    if type_name.is_empty() {
        return None;
    }
    let cut = type_name.find('<').unwrap_or(type_name.len());
    let head = &type_name[..cut];
    let start = head.rfind("::").map(|i| i + 2).unwrap_or(0);
    Some(type_name[start..].to_string())
}

// ---------------------------------------------------------------------------
// Programs of a run

#[derive(Clone, Debug, Serialize, Deserialize)]
pub struct ProgCase {
    /// Which generated program (index), and what to do with it.
    pub program: usize,
    pub mode: String,
}

pub struct Built {
    pub specs: Vec<TwinSpec>,
    /// (forward exe, reversed-source exe)
    pub exes: Vec<(PathBuf, PathBuf)>,
    pub rev_specs: Vec<TwinSpec>,
}

/// Generates and builds the programs of this run (shard 0 only).
pub fn programs(ctx: &Ctx, count: usize) -> Result<Built, String> {
    // The same programs for every property (so that C12 and C17 share one build).
    let mut seed = [0u8; 32];
    let mut x = crate::engine::splitmix(ctx.seed ^ 0xE3E3_E3E3);
    for chunk in seed.chunks_mut(8) {
        x = crate::engine::splitmix(x);
        chunk.copy_from_slice(&x.to_le_bytes());
    }
    let rng = TestRng::from_seed(RngAlgorithm::ChaCha, &seed);
    let mut runner = TestRunner::new_with_rng(Config::default(), rng);
    let mut specs = Vec::new();
    let mut rev_specs = Vec::new();
    let mut sources = Vec::new();
    for k in 0..count {
        let strat = if k % 2 == 0 { twingen::spec_with(0.25).boxed() } else { twingen::spec_args_heavy().boxed() };
        let mut spec = if k == 0 { golden_spec() } else { strat.new_tree(&mut runner).map_err(|e| e.to_string())?.current() };
        let name = format!("p{k}");
        e3_normalize(&mut spec, &name);
        let (src, located) = emit(&spec, &name, false);
        sources.push((name.clone(), src));
        specs.push(located);
        let rname = format!("p{k}r");
        let mut rspec = spec.clone();
        e3_normalize(&mut rspec, &rname);
        let (rsrc, rlocated) = emit(&rspec, &rname, true);
        sources.push((rname, rsrc));
        rev_specs.push(rlocated);
    }
    let exes = build(&sources)?;
    let mut pairs = Vec::new();
    for k in 0..count {
        let f = exes.get(&format!("p{k}")).cloned().ok_or_else(|| format!("no executable for p{k}"))?;
        let r = exes.get(&format!("p{k}r")).cloned().ok_or_else(|| format!("no executable for p{k}r"))?;
        pairs.push((f, r));
    }
    Ok(Built { specs, exes: pairs, rev_specs })
}

/// A hand-written program model that contains every special form at once
/// (always program 0).
pub fn golden_spec() -> TwinSpec {
    let loc = || Loc { file: String::new(), line: 0, col: 0 };
    let meta = |path: &[&str], raw: &str, custom: Option<&str>, options: Option<OptSpec>| Meta {
        module_path: path.iter().map(|s| s.to_string()).collect(),
        raw_name: raw.to_string(),
        custom_name: custom.map(|s| s.to_string()),
        loc: loc(),
        options,
    };
    let opt = |f: fn(&mut OptSpec)| {
        let mut o = OptSpec::default();
        f(&mut o);
        Some(o)
    };
    let bench = |uid: u32, m: Meta, args: Option<ArgList>, types: Option<Vec<u8>>, consts: Option<ConstList>, body: Body| Item::Bench(BenchSpec { meta: m, args, types, consts, body, uid });
    let k = "k";
    vec![
        // A function named like a sibling module that holds several benchmarks and a group with options.
        bench(1, meta(&[k], "sort", None, None), None, None, None, Body::Bench),
        Item::Group(meta(&[k], "sort", None, opt(|o| o.ignore = Some(true)))),
        bench(2, meta(&[k, "sort"], "a", None, None), None, None, None, Body::Bench),
        bench(3, meta(&[k, "sort"], "b", None, opt(|o| o.ignore = Some(false))), Some(ArgList::Ints(vec![3, 1, 2])), None, None, Body::Bench),
        bench(4, meta(&[k, "sort"], "c", None, None), None, None, None, Body::WithInputs),
        // Raw identifiers: module with a group (custom name and options), function.
        Item::Group(meta(&[k], "r#match", Some("Matching"), opt(|o| {
            o.sample_count = Some(2);
            o.counters[3] = Some(5);
        }))),
        bench(5, meta(&[k, "r#match"], "r#fn", None, None), None, None, None, Body::Bench),
        bench(6, meta(&[k, "r#match"], "r#type", Some("custom name"), opt(|o| o.threads = Some(vec![2, 1, 2]))), Some(ArgList::Strs(vec!["b".into(), "a10".into(), "a9".into()])), None, None, Body::Bench),
        // Group without options on a plain module, nested modules.
        Item::Group(meta(&[k], "outer", None, None)),
        Item::Group(meta(&[k, "outer"], "inner", Some("größe"), opt(|o| o.skip_ext_time = Some(true)))),
        bench(7, meta(&[k, "outer", "inner"], "deep", None, opt(|o| o.min_time_ns = Some(10))), None, None, None, Body::SetsBytesCounter),
        // Generic forms.
        bench(9, meta(&[k], "over_types", None, None), None, Some(vec![0, 2, 4, 6, 8]), None, Body::Bench),
        bench(12, meta(&[k], "ext_consts", None, opt(|o| o.sample_size = Some(1))), None, None, Some(ConstList::Usize((1..=20).collect())), Body::Bench),
        bench(10, meta(&[k], "lit_consts", None, None), None, None, Some(ConstList::I32(vec![-5, 10, 9])), Body::Bench),
        bench(13, meta(&[k], "both", Some("types x consts"), None), Some(ArgList::Ints(vec![10, 9])), Some(vec![1, 7]), Some(ConstList::Char(vec!['z', 'a'])), Body::Bench),
        // Empty lists register nothing.
        bench(14, meta(&[k], "no_types", None, None), None, Some(vec![]), None, Body::Bench),
        bench(16, meta(&[k], "no_consts", None, None), None, None, Some(ConstList::Bool(vec![])), Body::Bench),
        bench(18, meta(&[k], "no_args", None, None), Some(ArgList::Ints(vec![])), None, None, Body::Bench),
        // Nested in a function body (uid % 7 == 3), extern "C" (uid % 5 == 2, no Bencher).
        bench(24, meta(&[k], "nested", None, None), None, None, None, Body::Bench),
        bench(22, meta(&[k], "c_abi", None, None), None, None, None, Body::Bench),
        // `#[ignore]` attribute form (even uid) next to `ignore = true` (odd uid).
        bench(26, meta(&[k], "ignored_by_attr", None, opt(|o| o.ignore = Some(true))), None, None, None, Body::Bench),
        bench(27, meta(&[k], "ignored_by_option", None, opt(|o| {
            o.ignore = Some(true);
            o.sample_count = Some(1);
        })), None, None, None, Body::Bench),
        Item::Group(meta(&[k], "igmod", None, opt(|o| o.ignore = Some(true)))),
        bench(28, meta(&[k, "igmod"], "inside", None, None), None, None, None, Body::Bench),
        // `#[ignore = "reason"]` form (uid divisible by 4).
        bench(40, meta(&[k], "ignored_with_reason", None, opt(|o| o.ignore = Some(true))), None, None, None, Body::Bench),
    ]
    .into_iter()
    .collect::<Vec<_>>()
    .into()
}

impl From<Vec<Item>> for TwinSpec {
    fn from(items: Vec<Item>) -> Self {
        TwinSpec { items }
    }
}

pub fn program_count(tier: Tier) -> usize {
    match tier {
        Tier::Quick => 10,
        Tier::Thorough => 48,
    }
}

// ---------------------------------------------------------------------------
// C17 (macro level)

pub fn judge_c17(spec: &TwinSpec, run: &ProgRun) -> Result<bool, (String, String)> {
    if run.code != 0 {
        return Err(("program-exit".into(), format!("exit code {}: {}", run.code, run.stderr.lines().rev().take(4).collect::<Vec<_>>().join(" / "))));
    }
    let printed = parse_tree(&run.stdout, false).map_err(|e| ("malformed-tree".to_string(), format!("{e}\n{}", run.stdout)))?;
    fn rows(nodes: &[PNode]) -> Vec<Vec<String>> {
        fn walk(n: &PNode, path: &mut Vec<String>, out: &mut Vec<Vec<String>>) {
            path.push(n.name.clone());
            if n.children.is_empty() {
                out.push(path.clone());
            } else {
                for c in &n.children {
                    walk(c, path, out);
                }
            }
            path.pop();
        }
        let mut out = Vec::new();
        for n in nodes {
            walk(n, &mut Vec::new(), &mut out);
        }
        out
    }
    let rows = rows(&printed);
    let tree = twinref::build(spec);
    let cases = twinref::cases(&tree);
    let benches: BTreeMap<u32, &BenchSpec> = spec
        .items
        .iter()
        .filter_map(|i| match i {
            Item::Bench(b) => Some((b.uid, b)),
            _ => None,
        })
        .collect();
    let mut reordered = false;
    let mut last: Option<(u32, Option<String>, Option<String>, usize)> = None;
    let mut hits = run.hits.iter().peekable();
    for row in &rows {
        let mut comps: Vec<String> = row.clone();
        let mut row_threads: Option<usize> = None;
        if let Some(l) = comps.last() {
            if let Some(t) = l.strip_prefix("t=") {
                row_threads = t.parse::<usize>().ok();
                comps.pop();
            }
        }
        // The declared case this row stands for (by its label path).
        let candidates: Vec<&RCase> = cases.iter().filter(|c| c.path == comps).collect();
        if candidates.len() != 1 {
            if candidates.is_empty() {
                return Err(("row-without-case".into(), format!("row {row:?} is not a declared case\n{}", run.stdout)));
            }
            // Duplicate display paths: rows cannot be told apart.
            return Err(("__inconclusive".into(), "duplicate display paths".into()));
        }
        let case = candidates[0];
        let bench = benches[&case.uid];
        let eff = case.effective(&OptSpec::default());
        let counts = thread_counts(&eff.threads);
        let t = row_threads.unwrap_or(counts[0]);
        let has_samples = eff.sample_count != Some(0) && eff.sample_size != Some(0) && eff.max_time_ns != Some(0);
        // A Bencher function logs once per run; a plain function logs once per
        // call, i.e. once per thread in test mode (never without samples).
        let expect_hits = if uses_bencher(bench) { 1 } else if has_samples { t } else { 0 };
        for _ in 0..expect_hits {
            let Some((uid, ty, cst, arg, threads)) = hits.next() else {
                return Err(("rows-vs-invocations".into(), format!("row {row:?} should have invoked the function {expect_hits} time(s) but the log ends\n{}", run.stdout)));
            };
            let got = (*uid, type_label_of(ty), if cst.is_empty() { None } else { Some(cst.clone()) }, if arg.is_empty() && case.arg.is_none() { None } else { Some(arg.clone()) });
            let want = (case.uid, case.type_label.clone(), case.const_label.clone(), case.arg.clone());
            if got != want {
                let what = if got.0 != want.0 {
                    "benchmark"
                } else if got.3 != want.3 {
                    "argument"
                } else {
                    "instantiation"
                };
                return Err((
                    format!("label-vs-received:{what}"),
                    format!("the row labelled {:?} invoked uid {} with type {:?}, const {:?}, argument {:?}; the label names uid {} type {:?} const {:?} argument {:?} (this row should log {expect_hits} time(s); log: {:?})\n{}", row.join("::"), got.0, got.1, got.2, got.3, want.0, want.1, want.2, want.3, run.hits.iter().map(|h| (h.0, h.1.clone(), h.4)).collect::<Vec<_>>(), run.stdout),
                ));
            }
            if *threads != 0 && *threads != t {
                return Err(("thread-branch".into(), format!("row {row:?} ran with {threads} threads")));
            }
        }
        if let Some(idx) = case.arg_index {
            if let Some((u, ty, c, prev)) = &last {
                if *u == case.uid && *ty == case.type_label && *c == case.const_label && idx < *prev {
                    reordered = true;
                }
            }
            last = Some((case.uid, case.type_label.clone(), case.const_label.clone(), idx));
        }
    }
    if let Some(extra) = hits.next() {
        return Err(("rows-vs-invocations".into(), format!("more function invocations than rows explain (next: {extra:?})\n{}", run.stdout)));
    }
    for item in &spec.items {
        if let Item::Bench(b) = item {
            if let Some(a) = &b.args {
                let registers = !(b.types.as_ref().map(|t| t.is_empty()).unwrap_or(false) || b.consts.as_ref().map(|c| c.len() == 0).unwrap_or(false));
                if a.len() > 0 && registers {
                    let n = run.arg_evals.get(&b.uid).copied().unwrap_or(0);
                    if n != 1 {
                        return Err(("args-evaluated".into(), format!("the args expression of {} (uid {}) was evaluated {n} times in one process", b.meta.raw_name, b.uid)));
                    }
                }
            }
        }
    }
    Ok(reordered)
}

thread_local! {
    static BUILT: std::cell::RefCell<Option<Result<std::rc::Rc<Built>, String>>> = const { std::cell::RefCell::new(None) };
}

pub fn built(ctx: &Ctx) -> Result<std::rc::Rc<Built>, String> {
    BUILT.with(|b| {
        let mut b = b.borrow_mut();
        if b.is_none() {
            *b = Some(programs(ctx, program_count(ctx.tier)).map(std::rc::Rc::new));
        }
        b.as_ref().unwrap().clone()
    })
}

pub fn c17_groups(g: &mut Groups) {
    // Compiled programs are built once, by shard 0.
    if !g.is_run() || g.ctx.shard != 0 {
        // Replays of e3 cases depend on the programs generated in the run
        // that found them; they are reported with the program source instead.
        return;
    }
    let ctx = g.ctx;
    let built = match built(ctx) {
        Ok(b) => b,
        Err(e) => {
            // A generator that emits uncompilable programs is an
            // infrastructure problem (exit 2), never a violation.
            ctx.note(format!("INFRA: e3 programs unavailable: {e}"));
            return;
        }
    };
    let mut cases = Vec::new();
    for k in 0..built.specs.len() {
        for mode in ["", "--sort=name", "--sortr=name", "--sortr=kind", "--sort=location", "--sortr=location"] {
            cases.push(ProgCase { program: k, mode: mode.to_string() });
        }
    }
    g.enumerate_local(
        "macro_programs",
        cases,
        |c: &ProgCase| {
            let spec = &built.specs[c.program];
            let mut args = vec!["--test", "--include-ignored"];
            if !c.mode.is_empty() {
                args.push(&c.mode);
            }
            let run = run_prog(&built.exes[c.program].0, &args, &[], &format!("c17-{}", std::process::id()));
            match judge_c17(spec, &run) {
                Ok(reordered) => {
                    classify(format!("mode={}", c.mode));
                    Verdict::pass(reordered || !c.mode.is_empty())
                }
                Err((sig, msg)) if sig == "__inconclusive" => Verdict::Inconclusive(msg),
                Err((sig, msg)) => Verdict::fail(format!("macro:{sig}"), format!("{msg}\nprogram: {}", progs_dir().join(format!("benches/p{}.rs", c.program)).display())),
            }
        },
    );

}

/// C15 at the macro level: which benchmarks run under no flag, `--ignored`
/// and `--include-ignored`, with `ignore` written as an option of the divan
/// attribute, as `#[ignore]` and as `#[ignore = "reason"]`, on functions and
/// on group modules.
pub fn c15_groups(g: &mut Groups) {
    if !g.is_run() || g.ctx.shard != 0 {
        return;
    }
    let ctx = g.ctx;
    let built = match built(ctx) {
        Ok(b) => b,
        Err(e) => {
            ctx.note(format!("INFRA: e3 programs unavailable: {e}"));
            return;
        }
    };
    let mut cases = Vec::new();
    for k in 0..built.specs.len() {
        for mode in ["", "--ignored", "--include-ignored"] {
            cases.push(ProgCase { program: k, mode: mode.to_string() });
        }
    }
    g.enumerate_local("macro_programs_ignore", cases, |c: &ProgCase| {
        let spec = &built.specs[c.program];
        let flag: u8 = match c.mode.as_str() {
            "--ignored" => 1,
            "--include-ignored" => 2,
            _ => 0,
        };
        let mut args = vec!["--test"];
        if !c.mode.is_empty() {
            args.push(&c.mode);
        }
        let run = run_prog(&built.exes[c.program].0, &args, &[], &format!("c15-{}", std::process::id()));
        if run.code != 0 {
            return Verdict::fail("macro:exit", format!("exit code {} for {args:?}: {}", run.code, run.stderr));
        }
        let tree = twinref::build(spec);
        let cases = twinref::cases(&tree);
        let default = OptSpec::default();
        let runs = |ignored: bool| match flag {
            0 => !ignored,
            1 => ignored,
            _ => true,
        };
        // A plain-function benchmark logs its hit from inside the benchmarked
        // function: with zero samples in effect it is never called, so such
        // benchmarks are left out on both sides.
        let zero = |k: &RCase| {
            let e = k.effective(&default);
            e.sample_count == Some(0) || e.sample_size == Some(0) || e.max_time_ns == Some(0)
        };
        let unjudged: std::collections::BTreeSet<u32> = cases.iter().filter(|k| zero(k)).map(|k| k.uid).collect();
        let expect: std::collections::BTreeSet<u32> = cases.iter().filter(|k| runs(k.effective(&default).ignore.unwrap_or(false)) && !unjudged.contains(&k.uid)).map(|k| k.uid).collect();
        // A benchmark whose body never calls the Bencher still counts as run
        // (the hit is logged by the body itself).
        let got: std::collections::BTreeSet<u32> = run.hits.iter().map(|h| h.0).filter(|u| !unjudged.contains(u)).collect();
        if got != expect {
            let name = |uid: &u32| cases.iter().find(|k| k.uid == *uid).map(|k| k.path_str()).unwrap_or_else(|| uid.to_string());
            let missing: Vec<String> = expect.difference(&got).map(name).collect();
            let extra: Vec<String> = got.difference(&expect).map(name).collect();
            return Verdict::fail(
                "macro:ignore-flag",
                format!("with {:?}: did not run {missing:?}, ran unexpectedly {extra:?}\nprogram: {}", c.mode, progs_dir().join(format!("benches/p{}.rs", c.program)).display()),
            );
        }
        let ignored_some = cases.iter().any(|k| k.effective(&default).ignore.unwrap_or(false));
        classify(format!("flag={flag}"));
        Verdict::pass(ignored_some)
    });
}

