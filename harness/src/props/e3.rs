//! E3: generated programs that use the real `#[divan::bench]` / `#[divan::bench_group]` macros (filled in below).

use crate::groups::Groups;

pub fn c17_groups(_g: &mut Groups) {}
