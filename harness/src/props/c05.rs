//! C05 — reported statistics are the exact order statistics of the samples.
//!
//! (a) injected: arbitrary multisets of sample durations, sparse per-sample
//! allocation tallies and counter values are put into a real `BenchContext`
//! and `compute_stats` / the row painter are run on it.
//! (b) through the loop: see `loopdrv` based groups (scripted clock).

use divan::{
    __private::BenchOptions,
    __verif::{
        alloc::TallyView,
        bench::{Ctx as BenchCtx, StatsView, VAction},
        pure,
    },
};
use proptest::prelude::*;
use serde::{Deserialize, Serialize};

use super::{vec_u128_str, PropDef};
use crate::{
    capture,
    engine::{catch, classify, Verdict},
    groups::Groups,
    vensure,
};

pub const DEF: PropDef = PropDef {
    id: "C05",
    groups,
    rule: "injected: sample_size in 1..=2^32-1 (0 only with no samples), 0..=64 (sometimes up to 600) durations from a mixture (0, 1, runs of equal values, near 2^64, up to 2^100 ps), sparse per-sample allocation tallies, per kind no / constant / per-input counter values; loop: the real sample loop with cost tables, allocation scripts restricted by call and thread masks (sparse tallies in every pattern), tuned sizes and time budgets that end a run while tuning, samples derived from the trace; \
           non-trivial = >= 2 samples with a tie among durations, an even count, or sparse allocation info (some samples with, some without); the empty and singleton multisets are forced in as golden cases; distinct = distinct serialized case.",
    assumptions: &[
        "samples are injected into a real BenchContext through a cfg(divan_verif) hook; compute_stats and the painter are the production code",
        "with tied durations any sample attaining the duration may supply the fastest/slowest/median figures (the sort is unstable)",
        "floating-point figures are compared with relative tolerance 1e-12",
        "allocation tallies of a sample without operations are absent, as the loop records them",
    ],
    journal: true,
    timeout_s: (240, 3600),
    nshards: None,
};

#[derive(Clone, Debug, Serialize, Deserialize)]
pub enum CounterSpec {
    None,
    Const(u64),
    PerInput(Vec<u64>),
}

#[derive(Clone, Debug, Serialize, Deserialize)]
pub struct Case {
    pub sample_size: u32,
    #[serde(with = "vec_u128_str")]
    pub durations: Vec<u128>,
    /// Per sample: `Some([grow(c,s), shrink, alloc, dealloc, (max_count, max_size)])`.
    pub allocs: Vec<Option<[(u64, u64); 5]>>,
    pub counters: [CounterSpec; 4],
    pub binary: bool,
}

fn close(a: f64, b: f64) -> bool {
    if a == b {
        return true;
    }
    if !a.is_finite() || !b.is_finite() {
        return false;
    }
    (a - b).abs() <= 1e-12 * a.abs().max(b.abs())
}

fn tally_of(a: &Option<[(u64, u64); 5]>) -> [(u64, u64); 5] {
    a.unwrap_or([(0, 0); 5])
}

/// Checks a `StatsView` against the reference computed from the statement.
pub fn judge_stats(c: &Case, st: &StatsView) -> Result<(), (String, String)> {
    let n = c.durations.len();
    let s = c.sample_size as u128;
    let fail = |sig: &str, msg: String| Err((sig.to_string(), msg));

    if st.sample_count as usize != n {
        return fail("sample-count", format!("sample_count {} expected {n}", st.sample_count));
    }
    if st.iter_count as u128 != n as u128 * s {
        return fail("iter-count", format!("iter_count {} expected {}", st.iter_count, n as u128 * s));
    }
    let finite = |x: f64| x.is_finite();
    let all_f64: Vec<f64> = st
        .max_alloc_count
        .iter()
        .chain(&st.max_alloc_size)
        .chain(st.alloc_tallies.iter().flat_map(|(a, b)| a.iter().chain(b.iter())))
        .copied()
        .collect();
    if let Some(bad) = all_f64.iter().find(|x| !finite(**x)) {
        return fail("non-finite-figure", format!("allocation figure {bad} is not finite"));
    }

    if n == 0 {
        if st.time != [0; 4] {
            return fail("empty-nonzero", format!("no samples but time stats {:?}", st.time));
        }
        if all_f64.iter().any(|&x| x != 0.0) {
            return fail("empty-nonzero", "no samples but non-zero allocation figures".to_string());
        }
        return Ok(());
    }
    if s == 0 {
        // Not reachable through the loop (a zero sample size records nothing).
        return Ok(());
    }

    let mut sorted = c.durations.clone();
    sorted.sort_unstable();
    let min = sorted[0];
    let max = sorted[n - 1];
    let (mid_lo, mid_hi) = if n % 2 == 1 { (sorted[n / 2], sorted[n / 2]) } else { (sorted[n / 2 - 1], sorted[n / 2]) };
    let median = if n % 2 == 1 { mid_lo / s } else { ((mid_lo + mid_hi) / 2) / s };
    let total: u128 = c.durations.iter().sum();
    let mean = total / (n as u128 * s);
    let expect_time = [min / s, max / s, median, mean];
    let names = ["fastest", "slowest", "median", "mean"];
    for i in 0..4 {
        if st.time[i] != expect_time[i] {
            return fail(&format!("time-{}", names[i]), format!("{} = {} ps, expected {} ps", names[i], st.time[i], expect_time[i]));
        }
    }
    if !(st.time[0] <= st.time[2] && st.time[2] <= st.time[1] && st.time[0] <= st.time[3] && st.time[3] <= st.time[1]) {
        return fail("order", format!("fastest <= median, mean <= slowest violated: {:?}", st.time));
    }

    // Candidate samples for each position.
    let with = |v: u128| -> Vec<usize> { (0..n).filter(|&i| c.durations[i] == v).collect() };
    let fast_c = with(min);
    let slow_c = with(max);
    // Median candidates: single index (odd) or distinct pairs (even).
    let median_sets: Vec<Vec<usize>> = if n % 2 == 1 {
        with(mid_lo).into_iter().map(|i| vec![i]).collect()
    } else {
        let lo = with(mid_lo);
        let hi = with(mid_hi);
        let mut v = Vec::new();
        for &i in &lo {
            for &j in &hi {
                if i != j {
                    v.push(vec![i, j]);
                }
            }
        }
        v
    };

    let sf = c.sample_size as f64;
    // figure(sample, k): k in 0..10 -> op k/2 count (even) / size (odd); 8 = max count, 9 = max size.
    let fig = |i: usize, k: usize| -> f64 {
        let t = tally_of(&c.allocs[i]);
        let (a, b) = t[k / 2];
        (if k % 2 == 0 { a } else { b }) as f64
    };
    let got = |k: usize, col: usize| -> f64 {
        if k < 8 {
            let (cnt, size) = &st.alloc_tallies[k / 2];
            if k % 2 == 0 {
                cnt[col]
            } else {
                size[col]
            }
        } else if k == 8 {
            st.max_alloc_count[col]
        } else {
            st.max_alloc_size[col]
        }
    };
    let fig_names = ["grow count", "grow size", "shrink count", "shrink size", "alloc count", "alloc size", "dealloc count", "dealloc size", "max alloc count", "max alloc size"];

    // The same sample must explain all ten figures of a column.
    let explains = |set: &[usize], col: usize| -> bool {
        (0..10).all(|k| {
            let avg = set.iter().map(|&i| fig(i, k)).sum::<f64>() / set.len() as f64;
            close(got(k, col), avg / sf)
        })
    };
    if !fast_c.iter().any(|&i| explains(&[i], 0)) {
        return fail("alloc-fastest", format!("allocation figures under 'fastest' are not those of a fastest sample (candidates {fast_c:?})"));
    }
    if !slow_c.iter().any(|&i| explains(&[i], 1)) {
        return fail("alloc-slowest", format!("allocation figures under 'slowest' are not those of a slowest sample (candidates {slow_c:?})"));
    }
    if !median_sets.iter().any(|set| explains(set, 2)) {
        return fail("alloc-median", format!("allocation figures under 'median' are not those of the median sample(s) (candidates {median_sets:?})"));
    }
    let iters = (n as u128 * s) as f64;
    for k in 0..10 {
        let sum: f64 = (0..n).map(|i| fig(i, k)).sum();
        if !close(got(k, 3), sum / iters) {
            return fail("alloc-mean", format!("mean {} = {}, expected {}", fig_names[k], got(k, 3), sum / iters));
        }
    }

    // Counters.
    for kind in 0..4 {
        let value = |i: usize| -> Option<u64> {
            match &c.counters[kind] {
                CounterSpec::None => None,
                CounterSpec::Const(v) => Some(*v),
                CounterSpec::PerInput(v) => v.get(i).copied(),
            }
        };
        match (&c.counters[kind], &st.counts[kind]) {
            (CounterSpec::None, None) => {}
            (CounterSpec::None, Some(x)) => return fail("counter-phantom", format!("kind {kind}: counts {x:?} without a counter")),
            (_, None) => return fail("counter-missing", format!("kind {kind}: counter set but no counts reported")),
            (_, Some(got)) => {
                if !fast_c.iter().any(|&i| value(i) == Some(got[0])) {
                    return fail("counter-fastest", format!("kind {kind}: fastest count {} is not that of a fastest sample", got[0]));
                }
                if !slow_c.iter().any(|&i| value(i) == Some(got[1])) {
                    return fail("counter-slowest", format!("kind {kind}: slowest count {} is not that of a slowest sample", got[1]));
                }
                let med_ok = median_sets.iter().any(|set| {
                    let sum: u128 = set.iter().map(|&i| value(i).unwrap_or(0) as u128).sum();
                    (sum / set.len() as u128) as u64 == got[2]
                });
                if !med_ok {
                    return fail("counter-median", format!("kind {kind}: median count {} is not that of the median sample(s)", got[2]));
                }
                let mean = match &c.counters[kind] {
                    CounterSpec::Const(v) => *v,
                    CounterSpec::PerInput(v) => (v.iter().map(|&x| x as u128).sum::<u128>() / v.len() as u128) as u64,
                    CounterSpec::None => unreachable!(),
                };
                if got[3] != mean {
                    return fail("counter-mean", format!("kind {kind}: mean count {} expected {mean}", got[3]));
                }
            }
        }
    }
    Ok(())
}

/// Scans the painted rows.
pub fn judge_painted(text: &str, st: &StatsView, c: &Case) -> Result<(), (String, String)> {
    let fail = |sig: &str, msg: String| Err((sig.to_string(), format!("{msg}\n--- output ---\n{text}")));
    if text.contains("NaN") {
        return fail("prints-nan", "output contains NaN".into());
    }
    let lines: Vec<&str> = text.lines().collect();
    if lines.is_empty() {
        return fail("no-output", "nothing printed".into());
    }
    let cells: Vec<&str> = lines[0].split('│').map(|c| c.trim()).collect();
    if cells.len() != 6 {
        return fail("row-shape", format!("statistics row has {} cells", cells.len()));
    }
    // First cell starts with the branch glyph and name.
    let first = cells[0].rsplit("  ").next().unwrap_or("").trim();
    let expect: Vec<String> = st.time.iter().map(|&p| pure::fmt_duration(p, None, None)).collect();
    if !cells[0].ends_with(&expect[0]) {
        return fail("cell-fastest", format!("fastest cell {first:?} expected {:?}", expect[0]));
    }
    for (i, name) in ["slowest", "median", "mean"].iter().enumerate() {
        if cells[i + 1] != expect[i + 1] {
            return fail(&format!("cell-{name}"), format!("{name} cell {:?} expected {:?}", cells[i + 1], expect[i + 1]));
        }
    }
    if cells[4] != st.sample_count.to_string() || cells[5] != st.iter_count.to_string() {
        return fail("cell-samples-iters", format!("samples/iters cells {:?}/{:?} expected {}/{}", cells[4], cells[5], st.sample_count, st.iter_count));
    }
    // `inf` only in a throughput cell whose duration is 0 and count != 0.
    for line in &lines[1..] {
        if line.contains("inf") {
            let is_throughput = line.contains("/s") || line.contains("Hz");
            let zero_time = st.time.iter().any(|&t| t == 0);
            let has_counter = c.counters.iter().any(|k| !matches!(k, CounterSpec::None));
            if !(is_throughput && zero_time && has_counter) {
                return fail("prints-inf", format!("unexpected inf in row {line:?}"));
            }
        }
    }
    Ok(())
}

/// Injects the case's samples into a real `BenchContext`, computes the
/// statistics and paints the leaf (last child, name "bench").
pub fn inject_and_paint(c: &Case, is_last: bool) -> Result<(StatsView, String), String> {
    let n = c.durations.len();
    if c.allocs.len() != n || c.counters.iter().any(|k| matches!(k, CounterSpec::PerInput(v) if v.len() != n)) {
        return Err("malformed case".into());
    }
    let ctx = BenchCtx::new(VAction::Bench, Some(1_000_000_000));
    let options = BenchOptions::default();
    let mut run = ctx.start(&options, 1);
    let allocs: Vec<(u32, TallyView)> = c
        .allocs
        .iter()
        .enumerate()
        .filter_map(|(i, a)| a.map(|t| (i as u32, TallyView { tallies: [t[0], t[1], t[2], t[3]], current_count: 0, max_count: t[4].0 as i64, current_size: 0, max_size: t[4].1 as i64 })))
        .collect();
    let counts: [Option<(bool, Vec<u64>)>; 4] = std::array::from_fn(|k| match &c.counters[k] {
        CounterSpec::None => None,
        CounterSpec::Const(v) => Some((false, vec![*v])),
        CounterSpec::PerInput(v) => Some((true, v.clone())),
    });
    run.inject(c.sample_size, &c.durations, &allocs, &counts);
    let (painted, text) = capture::stdout(|| run.paint_leaf("bench", is_last, 12, c.binary));
    match painted {
        Ok(stats) => Ok((stats, text)),
        Err(e) => Err(format!("panic: {e}")),
    }
}

pub fn run_injected(c: &Case) -> Verdict {
    let n = c.durations.len();
    if c.allocs.len() != n {
        return Verdict::Inconclusive("malformed case".into());
    }
    for k in &c.counters {
        if let CounterSpec::PerInput(v) = k {
            if v.len() != n {
                return Verdict::Inconclusive("malformed case".into());
            }
        }
    }
    let ctx = BenchCtx::new(VAction::Bench, Some(1_000_000_000));
    let options = BenchOptions::default();
    let mut run = ctx.start(&options, 1);
    let allocs: Vec<(u32, TallyView)> = c
        .allocs
        .iter()
        .enumerate()
        .filter_map(|(i, a)| {
            a.map(|t| {
                (
                    i as u32,
                    TallyView {
                        tallies: [t[0], t[1], t[2], t[3]],
                        current_count: 0,
                        max_count: t[4].0 as i64,
                        current_size: 0,
                        max_size: t[4].1 as i64,
                    },
                )
            })
        })
        .collect();
    let counts: [Option<(bool, Vec<u64>)>; 4] = std::array::from_fn(|k| match &c.counters[k] {
        CounterSpec::None => None,
        CounterSpec::Const(v) => Some((false, vec![*v])),
        CounterSpec::PerInput(v) => Some((true, v.clone())),
    });
    run.inject(c.sample_size, &c.durations, &allocs, &counts);

    let stats = match catch(|| run.compute_stats()) {
        Ok(s) => s,
        Err(e) => {
            let sig = if n == 0 { "stats-panic:samples=0" } else { "stats-panic" };
            return Verdict::fail(sig, format!("compute_stats panicked with {n} samples, sample_size {}: {e}", c.sample_size));
        }
    };
    if let Err((sig, msg)) = judge_stats(c, &stats) {
        return Verdict::fail(sig, msg);
    }
    let (painted, text) = capture::stdout(|| run.paint_leaf("bench", true, 12, c.binary));
    match painted {
        Err(e) => return Verdict::fail("paint-panic", format!("painting the row panicked: {e}")),
        Ok(st2) => {
            vensure!(st2 == stats, "stats-unstable", "two compute_stats calls disagree");
        }
    }
    if let Err((sig, msg)) = judge_painted(&text, &stats, c) {
        return Verdict::fail(sig, msg);
    }

    let mut sorted = c.durations.clone();
    sorted.sort_unstable();
    let tie = sorted.windows(2).any(|w| w[0] == w[1]);
    let sparse = c.allocs.iter().any(|a| a.is_some()) && c.allocs.iter().any(|a| a.is_none());
    if tie {
        classify("tie");
    }
    if sparse {
        classify("sparse-alloc");
    }
    if n % 2 == 0 && n > 0 {
        classify("even");
    }
    Verdict::pass(n >= 2 && (tie || n % 2 == 0 || sparse))
}

fn duration() -> impl Strategy<Value = u128> {
    prop_oneof![
        2 => Just(0u128),
        2 => Just(1u128),
        4 => 0u128..=20,
        4 => 0u128..=1_000_000_000,
        2 => (0u32..=100).prop_map(|k| 1u128 << k),
        1 => (0u128..=1000).prop_map(|d| (1u128 << 64) - 500 + d),
        2 => (0u32..=100, any::<u128>()).prop_map(|(bits, v)| if bits == 0 { 0 } else { v >> (128 - bits) }),
    ]
}

fn durations(max: usize) -> impl Strategy<Value = Vec<u128>> {
    prop_oneof![
        3 => proptest::collection::vec(duration(), 0..=max),
        // Few distinct values: many ties.
        2 => (proptest::collection::vec(duration(), 1..=3), proptest::collection::vec(0usize..3, 0..=max))
            .prop_map(|(vals, picks)| picks.into_iter().map(|p| vals[p % vals.len()]).collect()),
    ]
}

fn alloc_entry() -> impl Strategy<Value = Option<[(u64, u64); 5]>> {
    let n = || prop_oneof![3 => 0u64..=8, 2 => 0u64..=100_000, 1 => (0u32..=44).prop_map(|k| 1u64 << k)];
    prop_oneof![
        2 => Just(None),
        3 => (proptest::array::uniform10(n()), 0usize..8, 1u64..=5).prop_map(|(v, force, fv)| {
            let mut t = [(v[0], v[1]), (v[2], v[3]), (v[4], v[5]), (v[6], v[7]), (v[8], v[9])];
            // An info is only recorded when some operation happened.
            if t[..4].iter().all(|&(a, b)| a == 0 && b == 0) {
                let slot = &mut t[force / 2];
                if force % 2 == 0 { slot.0 = fv } else { slot.1 = fv }
            }
            Some(t)
        }),
    ]
}

fn counter(n: usize) -> impl Strategy<Value = CounterSpec> {
    let v = || prop_oneof![3 => 0u64..=10, 2 => any::<u64>(), 1 => Just(u64::MAX), 2 => 0u64..=1_000_000];
    prop_oneof![
        3 => Just(CounterSpec::None),
        2 => v().prop_map(CounterSpec::Const),
        2 => proptest::collection::vec(v(), n..=n).prop_map(CounterSpec::PerInput),
    ]
}

fn case(max: usize) -> impl Strategy<Value = Case> {
    durations(max).prop_flat_map(|durations| {
        let n = durations.len();
        (
            Just(durations),
            prop_oneof![3 => 1u32..=16, 1 => 1u32..=1_000_000, 1 => Just(u32::MAX), 1 => (0u32..=31).prop_map(|k| 1u32 << k)],
            proptest::collection::vec(alloc_entry(), n..=n),
            [counter(n), counter(n), counter(n), counter(n)],
            any::<bool>(),
        )
            .prop_map(move |(durations, sample_size, allocs, counters, binary)| Case {
                sample_size: if durations.is_empty() && sample_size % 2 == 0 { 0 } else { sample_size },
                durations,
                allocs,
                counters,
                binary,
            })
    })
}

fn golden() -> Vec<Case> {
    let none4 = || [CounterSpec::None, CounterSpec::None, CounterSpec::None, CounterSpec::None];
    let mut v = vec![
        // Zero samples: what `--sample-count 0`, `--sample-size 0`, `--max-time 0` leave behind.
        Case { sample_size: 0, durations: vec![], allocs: vec![], counters: none4(), binary: false },
        Case { sample_size: 0, durations: vec![], allocs: vec![], counters: [CounterSpec::Const(5), CounterSpec::None, CounterSpec::None, CounterSpec::Const(0)], binary: false },
        Case { sample_size: 7, durations: vec![], allocs: vec![], counters: none4(), binary: true },
        // Singleton.
        Case { sample_size: 1, durations: vec![1000], allocs: vec![None], counters: none4(), binary: false },
        Case { sample_size: 3, durations: vec![0], allocs: vec![Some([(0, 0), (0, 0), (1, 8), (0, 0), (1, 8)])], counters: [CounterSpec::Const(100), CounterSpec::None, CounterSpec::None, CounterSpec::PerInput(vec![4])], binary: false },
        // Two equal, alloc on only one.
        Case { sample_size: 2, durations: vec![50, 50], allocs: vec![None, Some([(1, 2), (3, 4), (5, 6), (7, 8), (9, 10)])], counters: none4(), binary: false },
    ];
    v.push(Case {
        sample_size: 1,
        durations: vec![30, 10, 20, 40],
        allocs: vec![Some([(0, 0), (0, 0), (4, 4), (0, 0), (4, 4)]), Some([(0, 0), (0, 0), (1, 1), (0, 0), (1, 1)]), Some([(0, 0), (0, 0), (2, 2), (0, 0), (2, 2)]), None],
        counters: [CounterSpec::PerInput(vec![3, 1, 2, 4]), CounterSpec::None, CounterSpec::Const(9), CounterSpec::None],
        binary: false,
    });
    v
}

fn groups(g: &mut Groups) {
    g.enumerate("golden", |_| golden(), false, run_injected);
    g.prop("injected", 60_000, 6_000_000, || case(64), run_injected);
    g.prop("injected_long", 1_500, 120_000, || case(600), run_injected);
    super::c05_loop::groups(g);
}
