//! Generators for twin specs, filter sets and runner configurations.

use proptest::prelude::*;

use super::{twin::*, twinref};

const MOD_NAMES: [&str; 10] = ["alpha", "beta", "m1", "m10", "m2", "r#match", "sort", "x_y", "Z", "a"];
const FN_NAMES: [&str; 12] = ["a", "b", "bench1", "bench10", "bench2", "r#fn", "sort", "add", "Sub", "z9", "bench02", "x"];
const CUSTOM_NAMES: [&str; 10] = ["Add", "add two", "größe", "v1.2", "10", "9", "a::b", "naïve bench", "x-1", "(p)"];
const FILES: [&str; 3] = ["src/a.rs", "src/b.rs", "benches/z.rs"];

pub fn opt_spec(p_each: f64) -> impl Strategy<Value = OptSpec> {
    let p = p_each;
    (
        proptest::option::weighted(p, prop_oneof![Just(0u32), 1u32..=4, Just(7u32)]),
        proptest::option::weighted(p, prop_oneof![Just(0u32), 1u32..=3]),
        proptest::option::weighted(p, proptest::collection::vec(prop_oneof![3 => Just(0usize), 6 => 1usize..=3, 2 => Just(2usize), 2 => Just(twinref::available_parallelism()), 1 => Just(twinref::available_parallelism().saturating_sub(1).max(1))], 0..=3)),
        proptest::array::uniform4(proptest::option::weighted(p, 0u64..=5000)),
        proptest::option::weighted(p / 2.0, prop_oneof![Just(0u64), 1u64..=1000]),
        proptest::option::weighted(p / 2.0, prop_oneof![1u64..=1_000_000, Just(1_000_000_000u64)]),
        proptest::option::weighted(p, any::<bool>()),
        proptest::option::weighted(p, any::<bool>()),
    )
        .prop_map(|(sample_count, sample_size, threads, counters, min_time_ns, max_time_ns, skip_ext_time, ignore)| OptSpec {
            sample_count,
            sample_size,
            threads,
            counters,
            min_time_ns,
            max_time_ns,
            skip_ext_time,
            ignore,
        })
}

fn loc() -> impl Strategy<Value = Loc> {
    (0usize..FILES.len(), 1u32..=12, prop_oneof![Just(1u32), 1u32..=9]).prop_map(|(f, line, col)| Loc { file: FILES[f].to_string(), line, col })
}

pub fn int_args() -> impl Strategy<Value = ArgList> {
    proptest::collection::vec(prop_oneof![3 => 0i64..=20, 2 => -30i64..=30, 2 => 0i64..=2000, 1 => any::<i64>()], 0..=6).prop_map(|mut v| {
        v.dedup();
        let mut seen = std::collections::HashSet::new();
        v.retain(|x| seen.insert(*x));
        ArgList::Ints(v)
    })
}

pub fn str_args() -> impl Strategy<Value = ArgList> {
    proptest::collection::vec(
        prop_oneof![
            Just("a".to_string()),
            Just("b".to_string()),
            Just("a10".to_string()),
            Just("a9".to_string()),
            Just("a09".to_string()),
            Just("x y".to_string()),
            Just("é".to_string()),
            Just("Z".to_string()),
            Just("k-1".to_string()),
            Just("k-12".to_string()),
            // Debug renderings of tuples / maps contain commas.
            Just("(1, 2)".to_string()),
            Just("p,q".to_string()),
            "[a-d][a-d0-9]{0,3}",
        ],
        0..=6,
    )
    .prop_map(|v| {
        let mut seen = std::collections::HashSet::new();
        let v: Vec<String> = v.into_iter().filter(|x| seen.insert(x.clone())).collect();
        ArgList::Strs(v)
    })
}

pub fn float_args() -> impl Strategy<Value = ArgList> {
    proptest::collection::vec(prop_oneof![Just(0.5f64), Just(-1.5), Just(10.0), Just(9.25), Just(1e3), Just(-0.25), Just(2.0), Just(100.125), Just(-1e-3)], 0..=5).prop_map(|v| {
        let mut out: Vec<f64> = Vec::new();
        for x in v {
            if !out.contains(&x) {
                out.push(x);
            }
        }
        ArgList::Floats(out)
    })
}

pub fn arg_list() -> impl Strategy<Value = ArgList> {
    prop_oneof![3 => int_args(), 3 => str_args(), 1 => float_args()]
}

fn const_list() -> impl Strategy<Value = ConstList> {
    prop_oneof![
        3 => proptest::collection::vec(prop_oneof![0usize..=20, Just(100usize), Just(9usize), Just(10usize)], 0..=3).prop_map(|mut v| { dedup(&mut v); ConstList::Usize(v) }),
        2 => proptest::collection::vec(-20i32..=20, 0..=3).prop_map(|mut v| { dedup(&mut v); ConstList::I32(v) }),
        1 => proptest::collection::vec(prop_oneof![Just('a'), Just('Z'), Just('9'), Just('é')], 0..=3).prop_map(|mut v| { dedup(&mut v); ConstList::Char(v) }),
        1 => proptest::collection::vec(any::<bool>(), 0..=2).prop_map(|mut v| { dedup(&mut v); ConstList::Bool(v) }),
    ]
}

fn dedup<T: PartialEq + Clone>(v: &mut Vec<T>) {
    let mut out: Vec<T> = Vec::new();
    for x in v.iter() {
        if !out.contains(x) {
            out.push(x.clone());
        }
    }
    *v = out;
}

#[derive(Clone, Debug)]
struct GenBench {
    name: usize,
    custom: Option<usize>,
    options: Option<OptSpec>,
    loc: Loc,
    args: Option<ArgList>,
    types: Option<Vec<u8>>,
    consts: Option<ConstList>,
    body: Body,
    order: u16,
}

#[derive(Clone, Debug)]
struct GenMod {
    name: usize,
    group: Option<(Option<usize>, Option<OptSpec>, Loc, u16)>,
    benches: Vec<GenBench>,
    mods: Vec<GenMod>,
}

fn gen_bench(p_opts: f64) -> impl Strategy<Value = GenBench> {
    gen_bench_with(p_opts, 0.3)
}

fn gen_bench_with(p_opts: f64, p_args: f64) -> impl Strategy<Value = GenBench> {
    (
        (0usize..FN_NAMES.len(), proptest::option::weighted(0.2, 0usize..CUSTOM_NAMES.len()), proptest::option::weighted(0.5, opt_spec(p_opts)), loc()),
        (
            proptest::option::weighted(p_args, arg_list()),
            proptest::option::weighted(0.2, proptest::collection::vec(0u8..TYPE_POOL_LEN as u8, 0..=3).prop_map(|mut v| {
                dedup(&mut v);
                v
            })),
            proptest::option::weighted(0.2, const_list()),
            prop_oneof![6 => Just(Body::Bench), 2 => Just(Body::WithInputs), 1 => Just(Body::SetsBytesCounter), 1 => Just(Body::NoRun)],
            any::<u16>(),
        ),
    )
        .prop_map(|((name, custom, options, loc), (args, types, consts, body, order))| GenBench { name, custom, options, loc, args, types, consts, body, order })
}

fn gen_mod_leaf(p_opts: f64) -> impl Strategy<Value = GenMod> {
    (
        0usize..MOD_NAMES.len(),
        proptest::option::weighted(0.45, (proptest::option::weighted(0.4, 0usize..CUSTOM_NAMES.len()), proptest::option::weighted(0.7, opt_spec(p_opts)), loc(), any::<u16>())),
        proptest::collection::vec(gen_bench(p_opts), 0..=3),
    )
        .prop_map(|(name, group, benches)| GenMod { name, group, benches, mods: Vec::new() })
}

fn gen_mod(p_opts: f64, depth: u32) -> BoxedStrategy<GenMod> {
    if depth == 0 {
        return gen_mod_leaf(p_opts).boxed();
    }
    (gen_mod_leaf(p_opts), proptest::collection::vec(gen_mod(p_opts, depth - 1), 0..=2))
        .prop_map(|(mut m, mods)| {
            m.mods = mods;
            m
        })
        .boxed()
}

fn flatten(m: &GenMod, path: &mut Vec<String>, uid: &mut u32, out: &mut Vec<(u16, Item)>, is_root: bool) {
    // Unique names per module.
    let mut seen_fn = std::collections::HashSet::new();
    for b in &m.benches {
        if !seen_fn.insert(b.name) {
            continue;
        }
        *uid += 1;
        // A generic function becomes a group node named after it; a sibling
        // module of the same name would merge with it (not a documented
        // combination, see DESIGN.md section 10): keep such functions plain.
        let clash = m.mods.iter().any(|sub| MOD_NAMES[sub.name] == FN_NAMES[b.name]);
        out.push((
            b.order,
            Item::Bench(BenchSpec {
                meta: Meta {
                    module_path: path.clone(),
                    raw_name: FN_NAMES[b.name].to_string(),
                    custom_name: b.custom.map(|c| CUSTOM_NAMES[c].to_string()),
                    loc: b.loc.clone(),
                    options: b.options.clone(),
                },
                args: b.args.clone(),
                types: if clash { None } else { b.types.clone() },
                consts: if clash { None } else { b.consts.clone() },
                body: b.body,
                uid: *uid,
            }),
        ));
    }
    let mut seen_mod = std::collections::HashSet::new();
    for sub in &m.mods {
        if !seen_mod.insert(sub.name) {
            continue;
        }
        let raw = MOD_NAMES[sub.name].to_string();
        if let Some((custom, options, loc, order)) = &sub.group {
            out.push((
                *order,
                Item::Group(Meta { module_path: path.clone(), raw_name: raw.clone(), custom_name: custom.map(|c| CUSTOM_NAMES[c].to_string()), loc: loc.clone(), options: options.clone() }),
            ));
        }
        path.push(raw);
        flatten(sub, path, uid, out, false);
        path.pop();
    }
    let _ = is_root;
}

/// A benchmark crate: module tree of depth <= 3 under the crate root.
pub fn spec_with(p_opts: f64) -> impl Strategy<Value = TwinSpec> {
    (gen_mod(p_opts, 2), gen_bench(p_opts), prop_oneof![Just("c"), Just("krate"), Just("my_benches")]).prop_map(|(mut root, extra, krate)| {
        // Never an empty crate.
        if root.benches.is_empty() {
            root.benches.push(extra);
        }
        let mut out = Vec::new();
        let mut uid = 0;
        flatten(&root, &mut vec![krate.to_string()], &mut uid, &mut out, true);
        // Registration order is part of the case.
        out.sort_by_key(|(order, _)| *order);
        let mut spec = TwinSpec { items: out.into_iter().map(|(_, i)| i).collect() };
        // Keep within the static slot pool.
        while slots_needed(&spec) > SLOTS {
            spec.items.pop();
        }
        spec
    })
}

/// A crate in which most benchmarks take runtime arguments.
pub fn spec_args_heavy() -> impl Strategy<Value = TwinSpec> {
    (spec_with(0.15), proptest::collection::vec((gen_bench_with(0.15, 0.9), 0usize..4), 1..=4)).prop_map(|(mut spec, extra)| {
        // Add argument-taking benchmarks into existing module paths.
        let paths: Vec<Vec<String>> = spec
            .items
            .iter()
            .filter_map(|i| match i {
                Item::Bench(b) => Some(b.meta.module_path.clone()),
                _ => None,
            })
            .collect();
        let mut uid = 1000;
        for (b, pi) in extra {
            let path = paths[pi % paths.len()].clone();
            let raw = format!("{}_x{}", FN_NAMES[b.name].trim_start_matches("r#"), uid);
            uid += 1;
            spec.items.push(Item::Bench(BenchSpec {
                meta: Meta { module_path: path, raw_name: raw, custom_name: b.custom.map(|c| CUSTOM_NAMES[c].to_string()), loc: b.loc.clone(), options: b.options.clone() },
                args: b.args.clone(),
                types: b.types.clone(),
                consts: b.consts.clone(),
                body: b.body,
                uid,
            }));
        }
        while slots_needed(&spec) > SLOTS {
            spec.items.pop();
        }
        spec
    })
}

pub fn spec() -> impl Strategy<Value = TwinSpec> {
    spec_with(0.25)
}

/// Filter sets built *from the tree*: whole paths, inner-node paths, prefixes,
/// single components, argument labels, anchored patterns, alternations, `.*`
/// joins, strings matching nothing, the same string as positive and skip.
pub fn filters_for(spec: &TwinSpec) -> BoxedStrategy<Vec<(bool, bool, String)>> {
    let tree = twinref::build(spec);
    let cases = twinref::cases(&tree);
    let mut paths: Vec<String> = cases.iter().map(|c| c.path_str()).collect();
    let mut inner: Vec<String> = Vec::new();
    let mut comps: Vec<String> = Vec::new();
    for c in &cases {
        for i in 1..c.path.len() {
            inner.push(c.path[..i].join("::"));
        }
        comps.extend(c.path.iter().cloned());
    }
    for v in [&mut paths, &mut inner, &mut comps] {
        v.sort();
        v.dedup();
    }
    if paths.is_empty() {
        paths.push("nothing".into());
    }
    if inner.is_empty() {
        inner.push("nothing".into());
    }
    if comps.is_empty() {
        comps.push("nothing".into());
    }
    let pick = move |v: Vec<String>| (0..v.len()).prop_map(move |i| v[i].clone());
    let esc = |s: String| regex::escape(&s);
    let literal = prop_oneof![3 => pick(paths.clone()), 2 => pick(inner.clone()), 3 => pick(comps.clone()), 1 => Just("zzz_nothing".to_string())];
    let exact = literal.clone().prop_map(|s| (true, s));
    let regex = prop_oneof![
        3 => literal.clone().prop_map(esc),
        2 => pick(paths.clone()).prop_map(move |s| format!("^{}$", regex::escape(&s))),
        1 => pick(comps.clone()).prop_map(move |s| format!("{}$", regex::escape(&s))),
        1 => pick(comps.clone()).prop_map(move |s| format!("^{}", regex::escape(&s))),
        1 => (pick(comps.clone()), pick(comps.clone())).prop_map(|(a, b)| format!("({}|{})", regex::escape(&a), regex::escape(&b))),
        1 => (pick(comps.clone()), pick(comps.clone())).prop_map(|(a, b)| format!("{}.*{}", regex::escape(&a), regex::escape(&b))),
        1 => pick(paths.clone()).prop_map(|s| regex::escape(&s.chars().take(s.chars().count() / 2).collect::<String>())),
        1 => Just("::".to_string()),
        1 => Just("[0-9]+$".to_string()),
    ]
    .prop_map(|s| (false, s));
    let one = (prop::bool::weighted(0.4), prop_oneof![2 => regex, 1 => exact]).prop_map(|(inclusive, (exact, s))| (inclusive, exact, s));
    (proptest::collection::vec(one, 0..=5), prop::bool::weighted(0.2))
        .prop_map(|(mut v, dup)| {
            // The same string as positive and skip.
            if dup && !v.is_empty() {
                let mut f = v[0].clone();
                f.0 = !f.0;
                v.push(f);
            }
            v
        })
        .boxed()
}
