//! C04 — max_time, min_time and skip_ext_time bound sampling as documented.
//!
//! Oracle: a trace checker replays the stopping rule of the statement over the
//! *logged* clock readings of the run; the number of rounds executed must be
//! the smallest number satisfying the rule.

use proptest::prelude::*;

use super::{c01, PropDef};
use crate::{
    engine::{classify, Verdict},
    groups::Groups,
    loopdrv::*,
    loopmodel::*,
    vensure,
};

pub const DEF: PropDef = PropDef {
    id: "C04",
    groups,
    rule: "(n 0..=12, s 1..=4, T 1..=3, min_time / max_time in {unset, 0, ps-scale .. hours, Duration::MAX} incl. min > max, skip_ext_time in {unset,false,true}, f in {10^6..10^12}, cost scripts: per-call cost constant | growing | table (noisy) | zero-then-constant, generation / drop / read costs, per-thread skew); budgets are drawn relative to the per-round cost so that the boundary falls inside the first 1..=40 rounds, ties exactly on a budget are generated on purpose; tuned: tuned sample sizes (C19's generator: cost models around the 100-precision threshold, max_time cutting tuning short) judged for the stopping rule only; \
           non-trivial = the stopping round is decided by a time clause (max_time reached, or min_time kept the run going past sample_count); distinct by serialized case, classes report which clause fired x skip_ext_time x T.",
    assumptions: &[
        "every timestamp is supplied and logged by the scripted counter; elapsed time is recomputed from the logged readings with floor((b-a)*10^12/f)",
        "sample_size is explicit here (tuning is C19's domain)",
        "T > 1 uses per-thread scripted clocks, so the readings of a thread do not depend on the interleaving",
    ],
    journal: true,
    timeout_s: (300, 3600),
    nshards: None,
};

pub fn check_case(c: &LoopCase) -> Verdict {
    let t_eff = c.effective_threads();
    let Some(s) = c.sample_size else { return Verdict::Inconclusive("tuned size".into()) };
    if c.test_mode {
        return Verdict::Inconclusive("test mode".into());
    }
    let n = c.sample_count.unwrap_or(100) as u64;
    let min_ps = dur_ps(c.min_time).unwrap_or(0);
    let max_ps = dur_ps(c.max_time).unwrap_or(u128::MAX);
    let o = run_loop(c);
    // A runaway run that the harness wound down is judged on its completed
    // rounds: if the rule stops earlier than the run did, that is a violation;
    // otherwise the case is inconclusive.
    let abandoned = o.abandoned;
    if !abandoned {
        if let Err(e) = &o.result {
            return Verdict::fail("unexpected-panic", format!("loop panicked: {e}\ncase: {c:?}"));
        }
        if let Err((sig, msg)) = c01::check_lifecycle(c, &o) {
            return Verdict::fail(format!("lifecycle:{sig}"), format!("{msg}\ncase: {c:?}"));
        }
    }
    let tr = Traces::of(&o);
    let rounds = if abandoned { (0..t_eff).map(|t| tr.threads.get(t).map(|x| x.rounds.len()).unwrap_or(0)).min().unwrap_or(0) } else { tr.rounds() };
    if !abandoned {
        for t in 0..t_eff {
            let r = tr.threads.get(t).map(|x| x.rounds.len()).unwrap_or(0);
            vensure!(r == rounds, "uneven-rounds", "thread {t} ran {r} rounds, another thread {rounds}\ncase: {c:?}");
        }
    }
    if n == 0 || s == 0 || max_ps == 0 {
        vensure!(rounds == 0, "ran-despite-zero", "{rounds} rounds although sample_count, sample_size or max_time is 0\ncase: {c:?}");
        return Verdict::pass(true);
    }
    let skip = c.skip_ext_time.unwrap_or(false);
    if !skip {
        vensure!(tr.initial_start().is_some() || rounds == 0, "no-initial-start", "external time counts but no start reading precedes the first round\ncase: {c:?}");
        // "from just before the first sample": the reading must precede every
        // event of round 1 on the calling thread.
        if let (Some(tt), Some(&(_, seq0))) = (tr.threads.first(), tr.threads.first().and_then(|t| t.lone_starts.first())) {
            if let Some(first) = tt.rounds.first() {
                let first_seq = first.pre.first().map(|e| e.seq).unwrap_or(first.start_seq);
                vensure!(seq0 < first_seq, "initial-start-late", "the initial start reading was taken after work of the first round began\ncase: {c:?}");
            }
        }
    }
    // Replay the rule.
    let mut acc = 0u128;
    let mut stop_at: Option<usize> = None;
    let mut clause = "";
    let mut elapsed_log = Vec::new();
    for k in 0..rounds {
        let Some(elapsed) = elapsed_after(c, &tr, t_eff, k, &mut acc) else {
            return Verdict::fail("missing-readings", format!("round {k} lacks readings\ncase: {c:?}"));
        };
        elapsed_log.push(elapsed);
        let recorded = (k as u64 + 1) * t_eff as u64;
        if should_stop(elapsed, recorded, Some(n), min_ps, max_ps) {
            stop_at = Some(k + 1);
            clause = if elapsed >= max_ps {
                "max_time"
            } else if recorded - (t_eff as u64) >= n {
                // The count was already satisfied a round earlier: min_time kept it going.
                "min_time"
            } else {
                "sample_count"
            };
            break;
        }
    }
    if abandoned && !matches!(stop_at, Some(k) if k < rounds) {
        return Verdict::Inconclusive("runaway run (event budget)".into());
    }
    match stop_at {
        Some(k) => {
            vensure!(
                k == rounds,
                "ran-too-long",
                "the rule stops after round {k} (elapsed {:?} ps, min {min_ps}, max {max_ps}, n {n}, T {t_eff}) but {rounds} rounds ran\ncase: {c:?}",
                elapsed_log
            );
        }
        None => {
            return Verdict::fail(
                "stopped-early",
                format!("the run stopped after {rounds} rounds but the rule says continue (elapsed {elapsed_log:?} ps, min {min_ps}, max {max_ps}, n {n}, T {t_eff})\ncase: {c:?}"),
            );
        }
    }
    vensure!(
        o.view.durations.len() == rounds * t_eff,
        "recorded-samples",
        "{} samples recorded for {rounds} rounds on {t_eff} threads\ncase: {c:?}",
        o.view.durations.len()
    );
    classify(format!("{clause}{}{}", if skip { "/skip_ext" } else { "" }, if t_eff > 1 { "/T>1" } else { "" }));
    Verdict::pass(clause != "sample_count")
}

/// Picoseconds to (secs, nanos), rounding down to whole nanoseconds.
fn ps_to_dur(ps: u128) -> (u64, u32) {
    let ns = ps / 1000;
    ((ns / 1_000_000_000).min(u64::MAX as u128) as u64, (ns % 1_000_000_000) as u32)
}

pub fn cost_model(max: u64) -> impl Strategy<Value = CostModel> {
    prop_oneof![
        4 => (0u64..=max).prop_map(CostModel::Const),
        2 => (0u64..=max, 0u64..=max / 4 + 1).prop_map(|(base, step)| CostModel::Growing { base, step }),
        2 => proptest::collection::vec(0u64..=max, 1..=7).prop_map(CostModel::Table),
        1 => (0u64..=12, 1u64..=max.max(1)).prop_map(|(zero_calls, then)| CostModel::ZeroThen { zero_calls, then }),
    ]
}

fn case() -> impl Strategy<Value = LoopCase> {
    (
        (c01::entry(), c01::shape(), c01::shape(), 1u8..=3, 0u32..=12, 1u32..=4),
        (
            prop_oneof![Just(1_000_000u64), Just(1_000_000_000u64), Just(1_000_000_000_000u64), Just(3_000_000_000u64), Just(24_000_000u64)],
            cost_model(2000),
            0u64..=500,
            0u64..=500,
            0u64..=50,
            prop_oneof![3 => Just(0u64), 1 => 0u64..=300],
            any::<u64>(),
        ),
        (
            // Budgets as multiples of an estimated round cost, plus small deltas.
            proptest::option::weighted(0.7, (0u32..=40, -3i64..=3)),
            proptest::option::weighted(0.7, (0u32..=40, -3i64..=3)),
            prop_oneof![Just(None), Just(Some(false)), Just(Some(true))],
            prop_oneof![8 => Just(0u8), 1 => Just(1u8), 1 => Just(2u8)],
        ),
    )
        .prop_map(|((entry, input, output, threads, n, s), (frequency, call, gen, drop, read, skew, clock0), (min_b, max_b, skip, special))| {
            let mut c = LoopCase::basic(entry, input, output);
            c.threads = threads;
            c.sample_count = Some(n);
            c.sample_size = Some(s);
            c.frequency = frequency;
            c.clock0 = clock0 >> 2;
            c.skip_ext_time = skip;
            c.costs = Costs { gen, count: 0, call: call.clone(), drop_out: drop, drop_in: drop / 2, read, per_thread_skew: skew };
            // Estimated ticks per round on thread 0.
            let per_call = call.at(3).max(1);
            let timed = per_call * s as u64;
            let ext = (gen + drop + drop / 2) * s as u64 + 2 * read;
            let round_ticks = if skip == Some(true) { timed } else { timed + ext };
            let tick_ps = 1_000_000_000_000u128 / frequency as u128;
            let budget = |b: Option<(u32, i64)>| -> Option<(u64, u32)> {
                b.map(|(mult, delta)| {
                    let ps = (round_ticks as u128 * mult as u128 * tick_ps) as i128 + delta as i128 * 1000;
                    ps_to_dur(ps.max(0) as u128)
                })
            };
            c.min_time = budget(min_b);
            c.max_time = budget(max_b);
            match special {
                1 => c.max_time = Some((u64::MAX, 999_999_999)),
                2 => c.min_time = Some((0, 0)),
                _ => {}
            }
            // Keep runs bounded: min_time only keeps a run going while the
            // clock advances, so make sure it does.
            if c.min_time.is_some() && (round_ticks == 0 || (skip == Some(true) && (0..8).any(|i| call.at(i) == 0))) {
                c.costs.call = CostModel::Const(per_call);
            }
            c
        })
}

/// Cases where elapsed time lands exactly on a budget after round k.
fn ties(_: crate::engine::Tier) -> Vec<LoopCase> {
    let mut v = Vec::new();
    for skip in [None, Some(true)] {
        for threads in [1u8, 2] {
            for k in 1u64..=4 {
                for which in 0..3 {
                    for delta in [-1i64, 0, 1] {
                        let mut c = LoopCase::basic(Entry::BenchValues, ShapeKind::Plain, ShapeKind::Plain);
                        c.threads = threads;
                        c.skip_ext_time = skip;
                        c.sample_count = Some(2 * threads as u32);
                        c.sample_size = Some(2);
                        c.frequency = 1_000_000_000; // 1 tick = 1 ns
                        c.costs = Costs { gen: 3, count: 0, call: CostModel::Const(50), drop_out: 0, drop_in: 0, read: 0, per_thread_skew: 0 };
                        // Round: gen 6 ticks + timed 100 ticks. After round k the
                        // latest end reading is at k*106 (ext) / k*100 (skip).
                        let per = if skip == Some(true) { 100 } else { 106 };
                        let t = ((k * per) as i64 + delta).max(0) as u64;
                        match which {
                            0 => c.max_time = Some((0, t as u32)),
                            1 => c.min_time = Some((0, t as u32)),
                            _ => {
                                c.min_time = Some((0, (t + 300) as u32));
                                c.max_time = Some((0, t as u32));
                            }
                        }
                        v.push(c);
                    }
                }
            }
        }
    }
    v
}

/// Zero-cost calls with skip_ext_time: each round must count as 1 ns.
fn floor_cases(_: crate::engine::Tier) -> Vec<LoopCase> {
    let mut v = Vec::new();
    for threads in [1u8, 3] {
        for k in [0u32, 1, 2, 5, 17] {
            for f in [1_000_000u64, 1_000_000_000, 1_000_000_000_000] {
                let mut c = LoopCase::basic(Entry::Bench, ShapeKind::Unit, ShapeKind::Unit);
                c.threads = threads;
                c.skip_ext_time = Some(true);
                c.sample_count = Some(1);
                c.sample_size = Some(3);
                c.frequency = f;
                c.costs.call = CostModel::Const(0);
                c.min_time = Some((0, k));
                v.push(c.clone());
                // Sub-nanosecond timed sections.
                if f == 1_000_000_000_000 {
                    c.costs.call = CostModel::Const(100); // 300 ps per round
                    v.push(c);
                }
            }
        }
    }
    v
}

/// Tuned sample sizes: the same rule holds while the size is being tuned
/// (budgets are checked after every round, tuning rounds included; discarded
/// tuning samples do not count towards sample_count). The trace model of C19
/// replays the rule together with the doubling; only the verdicts about the
/// stopping rule are C04's business.
fn check_tuned(c: &LoopCase) -> Verdict {
    match super::c19::check_case(c) {
        Verdict::Fail { signature, message } if matches!(signature.as_str(), "ran-too-long" | "stopped-early" | "missing-readings") => Verdict::Fail { signature: format!("tuned:{signature}"), message },
        Verdict::Fail { .. } => Verdict::Inconclusive("a verdict of C19, not of the stopping rule".into()),
        Verdict::Pass { nontrivial } => {
            classify(format!("tuned/{}", if c.max_time.is_some() { "max_time" } else { "no-budget" }));
            Verdict::pass(nontrivial && c.max_time.is_some())
        }
        other => other,
    }
}

// ---------------------------------------------------------------------------
// Budget routes: `min_time`, `max_time` and `skip_ext_time` reach the sampling
// loop unchanged whichever way the user sets them - attribute, group, builder
// call before `config_with_args()`, flag, environment variable - and a zero
// `max_time` from any of them means no sample at all. Runs a registered twin
// through `config_with_args()` + `main()` with the command line parsed in this
// process; judged by C15's reference resolution, restricted to the three time
// fields and the call count (other fields are C03's / C15's business).

use super::{
    c03::{self, BuilderCliCase},
    c15,
    twin::{self, OptSpec},
    twingen,
};

fn budget_opts() -> impl Strategy<Value = OptSpec> {
    (
        prop_oneof![2 => Just(OptSpec::default()), 1 => c15::runner_opts()],
        proptest::option::weighted(0.4, prop_oneof![Just(0u64), Just(2_000_000_000u64)]),
        proptest::option::weighted(0.4, any::<bool>()),
        proptest::option::weighted(0.3, 1u64..=1000),
    )
        .prop_map(|(mut o, max, skip, min)| {
            o.max_time_ns = max;
            o.skip_ext_time = skip;
            o.min_time_ns = min;
            o
        })
}

fn budget_route_case() -> impl Strategy<Value = BuilderCliCase> {
    (twingen::spec_with(0.4), budget_opts(), budget_opts(), budget_opts(), any::<bool>(), 0u8..=2).prop_map(|(mut spec, builder, flags, env, bench_mode, test_args_shape)| {
        c03::keep_short(&mut spec);
        // A time floor only in test runs (where it is resolved and observed but
        // never waited for): a bench run of a tree that computes elapsed time
        // wrongly may never reach it, and the twin has no runaway guard.
        let strip = |mut o: OptSpec| {
            if bench_mode {
                o.min_time_ns = None;
            }
            o
        };
        if bench_mode {
            for item in spec.items.iter_mut() {
                let m = match item {
                    twin::Item::Bench(b) => &mut b.meta,
                    twin::Item::Group(m) => m,
                };
                if let Some(o) = &mut m.options {
                    o.min_time_ns = None;
                }
            }
        }
        let (builder, flags, env) = (strip(builder), strip(flags), strip(env));
        BuilderCliCase { spec, builder, flags, env, bench_mode, test_args_shape }
    })
}

fn check_budget_route(c: &BuilderCliCase) -> Verdict {
    let runner = c03::merge(&c.flags, &c.env, &c.builder);
    let mut args: Vec<String> = c.mode_args();
    args.extend(["--timer".to_string(), "tsc".to_string()]);
    args.extend(c15::cli_args(&c.flags));
    let mut env = c15::cli_env(&c.env);
    env.push(("VCHECK_TWIN_BUILDER".into(), serde_json::to_string(&c.builder).unwrap()));
    let (run, code, stderr) = match twin::with_cli_in_process(|| twin::run_child(&c.spec, &args, &env, "c04")) {
        Ok(r) => r,
        Err(e) => return Verdict::Inconclusive(e),
    };
    if code != 0 {
        return Verdict::fail("cli-exit", format!("exit code {code} for {args:?} {env:?}: {stderr}"));
    }
    let time_set = |o: &OptSpec| o.min_time_ns.is_some() || o.max_time_ns.is_some() || o.skip_ext_time.is_some();
    let sources = [&c.builder, &c.flags, &c.env].iter().filter(|o| time_set(o)).count();
    match c15::judge(&c.spec, &runner, 0, c.bench_mode, &run) {
        Ok(_) => {
            classify(format!("time fields from {sources} of builder/flag/env"));
            Verdict::pass(sources >= 1 && !run.invocations.is_empty())
        }
        Err((sig, msg)) if matches!(sig.as_str(), "field:min_time" | "field:max_time" | "field:skip_ext_time" | "calls" | "runner-panic") => {
            Verdict::fail(format!("route:{sig}"), format!("{msg}\nbuilder {:?}\nargs {args:?} env {env:?}", c.builder))
        }
        Err(_) => {
            classify("another field differs (not judged here)".to_string());
            Verdict::pass(false)
        }
    }
}

fn groups(g: &mut Groups) {
    g.prop("budget_routes", 16_000, 400_000, || budget_route_case(), check_budget_route);
    g.prop("tuned", 9_000, 500_000, || super::c19::case(), check_tuned);
    g.enumerate("ties", ties, false, check_case);
    g.enumerate("one_ns_floor", floor_cases, false, check_case);
    g.prop("random", 60_000, 3_000_000, || case(), check_case);
}
