//! C19 — automatic sample size: first power of two outlasting 100x timer precision.
//!
//! Oracle: a trace model of the doubling rule, replayed over the logged
//! readings and the observed sizes of successive rounds.

use proptest::prelude::*;

use super::{c01, PropDef};
use crate::{
    engine::{classify, Verdict},
    groups::Groups,
    loopdrv::*,
    loopmodel::*,
    vensure,
};

pub const DEF: PropDef = PropDef {
    id: "C19",
    groups,
    rule: "sample_size unset, precision override p = q ticks (q 1..=50), per-iteration cost from far below to far above p: constant (incl. 0, values at the doubling boundaries ceil(100q/2^j)+-1, up to 10^4 q), growing, noisy table, zero for the first calls; T 1..=3, sample_count 0..=6 or unset-like small, max_time unset / cutting tuning short / generous, min_time sometimes, skip_ext_time, allocation scripts and per-input counters so that discarded rounds carry data (incl. allocations only during the first calls); \
           non-trivial = >= 2 tuning rounds that do reach collection, or max_time ending the run during tuning; distinct by serialized case.",
    assumptions: &[
        "timer precision and loop overheads are supplied through cfg(divan_verif) overrides (production measures them from the real clock); overheads are zero here",
        "costs are generated so that the size freezes by 2^14 or max_time ends the run; u32 overflow of the doubling (>= 2^32 calls) is out of reach and not claimed",
        "when max_time ends the run during tuning, the samples of the last tuning round are what is reported (all with that round's size)",
    ],
    journal: true,
    timeout_s: (300, 3600),
    nshards: None,
};

pub fn check_case(c: &LoopCase) -> Verdict {
    if c.sample_size.is_some() || c.test_mode {
        return Verdict::Inconclusive("not a tuning case".into());
    }
    let t_eff = c.effective_threads();
    let n = c.sample_count.unwrap_or(100) as u64;
    let p = c.precision_ps.max(1) as u128;
    let min_ps = dur_ps(c.min_time).unwrap_or(0);
    let max_ps = dur_ps(c.max_time).unwrap_or(u128::MAX);
    let o = run_loop(c);
    // A runaway run that the harness wound down is judged on its completed
    // rounds: if the rule stops earlier than the run did, that is a violation;
    // otherwise the case is inconclusive.
    let abandoned = o.abandoned;
    if !abandoned {
        if let Err(e) = &o.result {
            return Verdict::fail("unexpected-panic", format!("loop panicked: {e}\ncase: {c:?}"));
        }
        if let Err((sig, msg)) = c01::check_lifecycle(c, &o) {
            return Verdict::fail(format!("lifecycle:{sig}"), format!("{msg}\ncase: {c:?}"));
        }
    }
    let tr = Traces::of(&o);
    let rounds = if abandoned { (0..t_eff).map(|t| tr.threads.get(t).map(|x| x.rounds.len()).unwrap_or(0)).min().unwrap_or(0) } else { tr.rounds() };
    if !abandoned {
        for t in 0..t_eff {
            let r = tr.threads.get(t).map(|x| x.rounds.len()).unwrap_or(0);
            vensure!(r == rounds, "uneven-rounds", "thread {t} ran {r} rounds, another thread {rounds}\ncase: {c:?}");
        }
    }
    if n == 0 || max_ps == 0 {
        vensure!(rounds == 0 && o.view.durations.is_empty(), "ran-despite-zero", "{rounds} rounds although sample_count or max_time is 0\ncase: {c:?}");
        return Verdict::pass(false);
    }
    vensure!(rounds >= 1, "no-rounds", "no round was run\ncase: {c:?}");

    // Replay.
    let mut size: u64 = 1;
    let mut frozen_at: Option<usize> = None;
    let mut acc = 0u128;
    let mut stop_at: Option<usize> = None;
    let mut sizes = Vec::new();
    let mut ended_in_tuning = false;
    for k in 0..rounds {
        for t in 0..t_eff {
            let calls = tr.round(t, k).map(|r| r.calls()).unwrap_or(0) as u64;
            vensure!(
                calls == size,
                "round-size",
                "round {k} thread {t}: {calls} iterations, the doubling rule gives {size} (sizes so far {sizes:?}, frozen at {frozen_at:?})\ncase: {c:?}"
            );
        }
        sizes.push(size);
        let slowest = (0..t_eff).filter_map(|t| tr.round(t, k)).map(|r| conv(r.end, r.start, c.frequency)).max().unwrap_or(0);
        let Some(elapsed) = elapsed_after(c, &tr, t_eff, k, &mut acc) else {
            return Verdict::fail("missing-readings", format!("round {k} lacks readings\ncase: {c:?}"));
        };
        if frozen_at.is_none() {
            if slowest / p > 100 {
                frozen_at = Some(k);
            } else {
                size *= 2;
            }
        }
        let (want, recorded) = match frozen_at {
            Some(f) => (Some(n), ((k - f + 1) * t_eff) as u64),
            None => (None, 0),
        };
        if should_stop(elapsed, recorded, want, min_ps, max_ps) {
            stop_at = Some(k + 1);
            ended_in_tuning = frozen_at.is_none();
            break;
        }
    }
    if abandoned && !matches!(stop_at, Some(k) if k < rounds) {
        return Verdict::Inconclusive("runaway run (event budget)".into());
    }
    match stop_at {
        Some(k) => vensure!(k == rounds, "ran-too-long", "the rule stops after round {k} but {rounds} rounds ran (sizes {sizes:?}, frozen at {frozen_at:?})\ncase: {c:?}"),
        None => {
            return Verdict::fail(
                "stopped-early",
                format!("the run stopped after {rounds} rounds but the rule says continue (sizes {sizes:?}, frozen at {frozen_at:?})\ncase: {c:?}"),
            )
        }
    }

    // What must be reported.
    let first_reported = frozen_at.unwrap_or(rounds - 1);
    let final_size = sizes[rounds - 1];
    vensure!(
        o.view.sample_size as u64 == final_size,
        "reported-size",
        "reported sample size {} but the final size is {final_size} (sizes {sizes:?})\ncase: {c:?}",
        o.view.sample_size
    );
    let reported_rounds = rounds - first_reported;
    vensure!(
        o.view.durations.len() == reported_rounds * t_eff,
        "reported-samples",
        "{} samples reported; rounds {first_reported}..{rounds} on {t_eff} threads should be (sizes {sizes:?}, frozen at {frozen_at:?})\ncase: {c:?}",
        o.view.durations.len()
    );
    let mut index = 0usize;
    for k in first_reported..rounds {
        for t in 0..t_eff {
            let r = tr.round(t, k).unwrap();
            let raw = conv(r.end, r.start, c.frequency);
            let expect = if raw == 0 { p } else { raw };
            vensure!(
                o.view.durations[index] == expect,
                "reported-duration",
                "sample #{index} (round {k}, thread {t}) reported {} ps, its timed section measured {raw} ps\ncase: {c:?}",
                o.view.durations[index]
            );
            // Allocation data: exactly that of the sample's own timed section.
            let model = WindowTally::of(&r.window);
            let got = o.view.alloc_by_sample.iter().find(|(i, _)| *i as usize == index).map(|(_, t)| t);
            match (model.is_empty(), got) {
                (true, None) => {}
                (true, Some(tally)) => {
                    return Verdict::fail(
                        "stale-alloc-data",
                        format!("sample #{index} (round {k}, thread {t}) performed no allocator operation but reports {tally:?} (data of a discarded round?)\ncase: {c:?}"),
                    )
                }
                (false, None) => return Verdict::fail("missing-alloc-data", format!("sample #{index} lost its allocation data {model:?}\ncase: {c:?}")),
                (false, Some(tally)) => vensure!(model.matches(tally), "wrong-alloc-data", "sample #{index}: reported {tally:?}, its timed section did {model:?}\ncase: {c:?}"),
            }
            // Per-input counter data.
            if c.entry.has_inputs() {
                for kind in 0..4 {
                    if c.input_counters[kind] {
                        let counts = &o.view.counts[kind];
                        vensure!(
                            counts.len() == reported_rounds * t_eff,
                            "stale-counter-data",
                            "counter {kind}: {} values for {} reported samples\ncase: {c:?}",
                            counts.len(),
                            reported_rounds * t_eff
                        );
                        let expect = per_iter_count(kind as u8, r, final_size as u32);
                        vensure!(counts[index] == expect, "wrong-counter-data", "counter {kind} sample #{index}: {} expected {expect}\ncase: {c:?}", counts[index]);
                    }
                }
            }
            index += 1;
        }
    }
    if let Some(&(i, _)) = o.view.alloc_by_sample.iter().find(|(i, _)| *i as usize >= o.view.durations.len()) {
        return Verdict::fail("stale-alloc-data", format!("allocation data for non-existent sample #{i}\ncase: {c:?}"));
    }

    let tuning_rounds = frozen_at.unwrap_or(rounds);
    classify(format!(
        "tuning_rounds={}{}{}",
        match tuning_rounds {
            0 => "0",
            1 => "1",
            2..=4 => "2-4",
            _ => "5+",
        },
        if ended_in_tuning { "/cut-by-max_time" } else { "" },
        if t_eff > 1 { "/T>1" } else { "" }
    ));
    Verdict::pass((tuning_rounds >= 2 && frozen_at.is_some()) || ended_in_tuning)
}

fn alloc_steps() -> impl Strategy<Value = Vec<AllocStep>> {
    proptest::collection::vec(
        prop_oneof![
            3 => (1u32..=256).prop_map(AllocStep::Alloc),
            1 => (1u32..=256).prop_map(AllocStep::AllocZeroed),
            2 => (1u32..=512).prop_map(AllocStep::Realloc),
            3 => Just(AllocStep::Dealloc),
        ],
        0..=4,
    )
}

pub fn case() -> impl Strategy<Value = LoopCase> {
    (1u64..=50).prop_flat_map(|q| {
        let boundary = (0u32..=10, -1i64..=1).prop_map(move |(j, d)| (((100 * q) >> j) as i64 + 1 + d).max(0) as u64);
        let cost = prop_oneof![
            1 => Just(CostModel::Const(0)),
            3 => (1u64..=3 * q).prop_map(CostModel::Const),
            4 => boundary.clone().prop_map(CostModel::Const),
            1 => (100 * q..=10_000 * q).prop_map(CostModel::Const),
            2 => (0u64..=q, 0u64..=3).prop_map(|(base, step)| CostModel::Growing { base, step }),
            2 => proptest::collection::vec(prop_oneof![Just(0u64), 0u64..=2 * q, boundary], 1..=6).prop_map(CostModel::Table),
            2 => (0u64..=300, 1u64..=20 * q).prop_map(|(zero_calls, then)| CostModel::ZeroThen { zero_calls, then }),
        ];
        (
            (Just(q), cost, c01::entry(), c01::shape(), c01::shape(), 1u8..=3),
            (
                prop_oneof![1 => Just(0u32), 6 => 1u32..=6],
                prop_oneof![5 => Just(None), 3 => (0u64..=60).prop_map(Some), 2 => (0u64..=3000).prop_map(Some)],
                proptest::option::weighted(0.2, 0u64..=2000),
                prop_oneof![Just(None), Just(Some(false)), Just(Some(true))],
                0u64..=40,
                0u64..=40,
                0u64..=5,
                prop_oneof![2 => Just(0u64), 2 => 0u64..=3, 1 => 0u64..=60],
            ),
            (proptest::array::uniform4(prop::bool::weighted(0.3)), alloc_steps(), prop_oneof![2 => Just(0u32), 1 => 1u32..=3, 1 => 1u32..=40], any::<bool>(), alloc_steps()),
        )
            .prop_map(|((q, call, entry, input, output, threads), (n, max_mult, min_mult, skip, gen, drop, read, skew), (input_counters, benched, first, vary, gen_allocs))| {
                let mut c = LoopCase::basic(entry, input, output);
                c.sample_size = None;
                c.sample_count = Some(n);
                c.threads = threads;
                c.frequency = 1_000_000_000;
                c.precision_ps = q * 1000;
                c.skip_ext_time = skip;
                c.input_counters = input_counters;
                c.costs = Costs { gen, count: 0, call: call.clone(), drop_out: drop, drop_in: 0, read, per_thread_skew: skew };
                c.allocs.benched = benched;
                c.allocs.benched_first_calls = first;
                c.allocs.benched_vary = vary;
                c.allocs.gen = gen_allocs;
                // Budgets in units of q ticks (= q ns).
                c.max_time = max_mult.map(|m| (0u64, (m * q) as u32));
                c.min_time = min_mult.map(|m| (0u64, (m * q) as u32));
                // Termination: either calls cost enough that the size freezes by
                // ~2^13, or max_time ends the run within a dozen rounds.
                let avg_milli: u64 = (0..256u64).map(|i| call.at(i).min(1_000_000)).sum::<u64>() * 1000 / 256;
                let may_never_freeze = (0..4096u64).all(|i| call.at(i) == 0);
                if may_never_freeze {
                    if c.skip_ext_time != Some(true) && c.costs.read == 0 {
                        c.costs.read = 1;
                    }
                    let progress = if c.skip_ext_time == Some(true) { 1 } else { 2 * c.costs.read };
                    let k = max_mult.unwrap_or(7) % 13;
                    c.max_time = Some((0, (k * progress) as u32));
                } else if avg_milli * 8192 / 1000 <= 100 * q {
                    // Too cheap for this precision: use a finer precision.
                    let q2 = (avg_milli * 8192 / 1000 / 100).max(1);
                    c.precision_ps = q2 * 1000;
                    if avg_milli * 8192 / 1000 <= 100 * q2 {
                        // Still too cheap: bound the run by max_time instead.
                        if c.skip_ext_time != Some(true) && c.costs.read == 0 {
                            c.costs.read = 1;
                        }
                        let progress = if c.skip_ext_time == Some(true) { 1 } else { 2 * c.costs.read };
                        c.max_time = Some((0, (9 * progress) as u32));
                    }
                }
                // min_time must be reachable.
                if c.min_time.is_some() && c.skip_ext_time != Some(true) && c.costs.read == 0 && (0..8u64).all(|i| call.at(i) == 0) {
                    c.costs.read = 1;
                }
                c
            })
    })
}

fn golden(_: crate::engine::Tier) -> Vec<LoopCase> {
    let mut v = Vec::new();
    // Exactly at the threshold: multiple = 100 keeps tuning, 101 freezes.
    for cost in [99u64, 100, 101, 50, 51, 25, 26, 13, 1] {
        for threads in [1u8, 2] {
            let mut c = LoopCase::basic(Entry::BenchRefs, ShapeKind::Owned, ShapeKind::Owned);
            c.sample_size = None;
            c.sample_count = Some(3);
            c.threads = threads;
            c.frequency = 1_000_000_000;
            c.precision_ps = 1000;
            c.costs.call = CostModel::Const(cost);
            c.input_counters = [false, false, false, true];
            // Lazy initialisation: only the very first call allocates.
            c.allocs.benched = vec![AllocStep::Alloc(64), AllocStep::Dealloc];
            c.allocs.benched_first_calls = 1;
            v.push(c);
        }
    }
    v
}

fn groups(g: &mut Groups) {
    g.enumerate("threshold", golden, false, check_case);
    g.prop("random", 36_000, 2_000_000, || case(), check_case);
}
