//! C13 — a benchmark case runs iff its full display path passes the filters.

use std::collections::BTreeMap;

use proptest::prelude::*;
use serde::{Deserialize, Serialize};

use super::{
    twin::{self, *},
    twingen,
    twinref::{self, *},
    PropDef,
};
use crate::{
    engine::{classify, Verdict},
    groups::Groups,
    vensure,
};

pub const DEF: PropDef = PropDef {
    id: "C13",
    groups,
    rule: "generated entry trees (module depth <= 3, groups with custom names, plain / args / types / consts / types x consts benchmarks, raw identifiers, duplicate and non-ASCII names, random registration order) x filter sets built from the tree (0..=5 filters, positive or skip, regex or exact: whole paths, inner-node paths, single components, argument labels, anchored, alternations, .* joins, prefixes, matching nothing, the same string as positive and skip); routes: Divan builder + hook-set positive filters (in-process) and real command lines through divan::main() in a child process; pure level: FilterSet::is_match on generated paths; the terse listing of every case is judged too (exactly the selected cases), and on the command-line route some skip filters are given through builder calls made before config_with_args(); \
           non-trivial = the filter set selects a strict, non-empty subset of the cases and (a positive and a skip filter overlap on a case, or a filter matches an inner node's path but not a leaf below it, or an argument of a benchmark is dropped while a sibling argument stays); distinct by serialized case.",
    assumptions: &[
        "the registry is filled through the public __private structs exactly as the macros emit them (C12 checks the macros themselves on compiled programs)",
        "the reference matcher is the regex crate (search semantics) for the generated pattern grammar; the property is about selection, not about regex-lite",
        "benchmark bodies log every invocation; a case 'ran' iff its body was invoked",
    ],
    journal: true,
    timeout_s: (300, 3600),
    nshards: None,
};

#[derive(Clone, Debug, Serialize, Deserialize)]
pub struct Case {
    pub spec: TwinSpec,
    pub filters: Vec<(bool, bool, String)>,
    /// CLI route only: bit i set = the i-th skip filter is given through the
    /// builder (`skip_exact` / `skip_regex`) before `config_with_args()`
    /// instead of `--skip` on the command line.
    #[serde(default)]
    pub builder_skips: u8,
}

pub type CaseKey = (u32, Option<String>, Option<String>, Option<String>);

pub fn key_of_case(c: &RCase) -> CaseKey {
    (c.uid, c.type_label.clone(), c.const_label.clone(), c.arg.clone())
}

pub fn key_of_invocation(i: &Invocation) -> CaseKey {
    (i.uid, i.type_label.clone(), i.const_label.clone(), i.arg.clone())
}

pub fn multiset<T: Ord + Clone>(items: impl IntoIterator<Item = T>) -> BTreeMap<T, usize> {
    let mut m = BTreeMap::new();
    for i in items {
        *m.entry(i).or_insert(0) += 1;
    }
    m
}

/// Expected multiset of printed node paths: every selected case, each of its
/// ancestors once per node, argument cases, and `t=N` branches for benchmarks
/// whose effective thread list has several counts.
///
/// `mode`: 0 = `--list` (no argument cases, no thread branches), 1 = a run.
pub fn expected_nodes(tree: &[RNode], selected: &dyn Fn(&RCase) -> bool, runner: &OptSpec, mode: u8, shown_ignored: &dyn Fn(&RCase) -> bool) -> BTreeMap<Vec<String>, usize> {
    struct Ctx<'a> {
        selected: &'a dyn Fn(&RCase) -> bool,
        shown_ignored: &'a dyn Fn(&RCase) -> bool,
        runner: &'a OptSpec,
        mode: u8,
        out: BTreeMap<Vec<String>, usize>,
    }
    fn add(out: &mut BTreeMap<Vec<String>, usize>, p: &[String]) {
        *out.entry(p.to_vec()).or_insert(0) += 1;
    }
    fn walk(n: &RNode, path: &mut Vec<String>, groups: &mut Vec<OptSpec>, cx: &mut Ctx) -> bool {
        path.push(n.display.clone());
        let mut any = false;
        match &n.kind {
            RKind::Parent { children } => {
                let pushed = n.options.is_some();
                if let Some(o) = &n.options {
                    groups.push(o.clone());
                }
                for c in children {
                    any |= walk(c, path, groups, cx);
                }
                if pushed {
                    groups.pop();
                }
            }
            RKind::Leaf { uid, type_label, const_label, args, .. } => {
                let mut levels = Vec::new();
                if let Some(o) = &n.options {
                    levels.push(o.clone());
                }
                levels.extend(groups.iter().rev().cloned());
                let base = RCase { path: path.clone(), uid: *uid, type_label: type_label.clone(), const_label: const_label.clone(), arg: None, arg_index: None, levels };
                let counts = thread_counts(&base.effective(cx.runner).threads);
                // A leaf that is skipped as ignored is shown as one `(ignored)` line.
                let ignored_line = cx.mode == 1 && (cx.shown_ignored)(&base);
                match args {
                    None => {
                        any = (cx.selected)(&base);
                        if any && cx.mode == 1 && !ignored_line && counts.len() > 1 {
                            for t in &counts {
                                let mut p = path.clone();
                                p.push(format!("t={t}"));
                                add(&mut cx.out, &p);
                            }
                        }
                    }
                    Some(list) => {
                        for (name, idx) in list {
                            let mut c = base.clone();
                            c.path.push(name.clone());
                            c.arg = Some(name.clone());
                            c.arg_index = Some(*idx);
                            if (cx.selected)(&c) {
                                any = true;
                                if cx.mode == 1 && !ignored_line {
                                    add(&mut cx.out, &c.path);
                                    if counts.len() > 1 {
                                        for t in &counts {
                                            let mut p = c.path.clone();
                                            p.push(format!("t={t}"));
                                            add(&mut cx.out, &p);
                                        }
                                    }
                                }
                            }
                        }
                    }
                }
            }
        }
        if any {
            add(&mut cx.out, path);
        }
        path.pop();
        any
    }
    let mut cx = Ctx { selected, shown_ignored, runner, mode, out: BTreeMap::new() };
    for r in tree {
        walk(r, &mut Vec::new(), &mut Vec::new(), &mut cx);
    }
    cx.out
}

pub fn printed_nodes(text: &str, has_columns: bool) -> Result<BTreeMap<Vec<String>, usize>, String> {
    let nodes = parse_tree(text, has_columns)?;
    let mut all = Vec::new();
    for n in &nodes {
        n.walk(&mut Vec::new(), &mut all);
    }
    Ok(multiset(all.into_iter().map(|(p, _)| p)))
}

pub fn judge_selection(spec: &TwinSpec, filters: &[(bool, bool, String)], run_test: &TwinRun, run_list: Option<&TwinRun>) -> Result<(usize, usize, bool), (String, String)> {
    let Some(rf) = RefFilters::new(filters) else { return Err(("__inconclusive".into(), "pattern not accepted by the reference matcher".into())) };
    let tree = twinref::build(spec);
    let cases = twinref::cases(&tree);
    let selected: Vec<&RCase> = cases.iter().filter(|c| rf.selects(&c.path_str())).collect();
    if let Some(p) = &run_test.panic {
        return Err(("runner-panic".into(), format!("the runner panicked: {p}")));
    }
    // 1. what ran.
    let ran = multiset(run_test.invocations.iter().map(key_of_invocation));
    let expect = multiset(selected.iter().map(|c| key_of_case(c)));
    for (k, _) in &expect {
        if !ran.contains_key(k) {
            let path = selected.iter().find(|c| key_of_case(c) == *k).map(|c| c.path_str()).unwrap_or_default();
            return Err(("selected-not-run".into(), format!("case {path:?} passes the filters {filters:?} but did not run")));
        }
    }
    for (k, _) in &ran {
        if !expect.contains_key(k) {
            let path = cases.iter().find(|c| key_of_case(c) == *k).map(|c| c.path_str()).unwrap_or_else(|| format!("{k:?}"));
            return Err(("unselected-ran".into(), format!("case {path:?} does not pass the filters {filters:?} but ran")));
        }
    }
    // 2. what is shown (test output shows argument cases too).
    let sel = |c: &RCase| rf.selects(&c.path_str());
    let printed = printed_nodes(&run_test.stdout, false).map_err(|e| ("malformed-tree".to_string(), format!("{e}\n{}", run_test.stdout)))?;
    let never = |_: &RCase| false;
    let expect_nodes = expected_nodes(&tree, &sel, &OptSpec::default(), 1, &never);
    if printed != expect_nodes {
        let missing: Vec<_> = expect_nodes.iter().filter(|(k, v)| printed.get(*k) != Some(v)).map(|(k, _)| k.join("::")).collect();
        let extra: Vec<_> = printed.iter().filter(|(k, v)| expect_nodes.get(*k) != Some(v)).map(|(k, _)| k.join("::")).collect();
        return Err((
            "shown-nodes".into(),
            format!("nodes shown differ from the selected cases and their ancestors: missing/miscounted {missing:?}, unexpected {extra:?}\nfilters {filters:?}\n{}", run_test.stdout),
        ));
    }
    if let Some(list) = run_list {
        if let Some(p) = &list.panic {
            return Err(("runner-panic".into(), format!("the runner panicked while listing: {p}")));
        }
        let printed = printed_nodes(&list.stdout, false).map_err(|e| ("malformed-tree".to_string(), format!("{e}\n{}", list.stdout)))?;
        let expect_nodes = expected_nodes(&tree, &sel, &OptSpec::default(), 0, &never);
        if printed != expect_nodes {
            return Err(("listed-nodes".into(), format!("--list shows {:?}, expected {:?}\nfilters {filters:?}", printed.keys().map(|k| k.join("::")).collect::<Vec<_>>(), expect_nodes.keys().map(|k| k.join("::")).collect::<Vec<_>>())));
        }
    }
    // Non-triviality.
    let strict = !selected.is_empty() && selected.len() < cases.len();
    let overlap = cases.iter().any(|c| {
        let p = c.path_str();
        let pos = filters.iter().any(|f| f.0 && RefFilters::new(&[f.clone()]).map(|r| r.selects(&p)).unwrap_or(false));
        let neg = filters.iter().any(|f| !f.0 && !RefFilters::new(&[f.clone()]).map(|r| r.selects(&p)).unwrap_or(true));
        pos && neg
    });
    let arg_split = cases.iter().any(|c| c.arg.is_some() && !rf.selects(&c.path_str()) && cases.iter().any(|d| d.uid == c.uid && d.type_label == c.type_label && d.const_label == c.const_label && d.arg.is_some() && rf.selects(&d.path_str())));
    Ok((selected.len(), cases.len(), strict && (overlap || arg_split || filters.len() >= 2)))
}

pub fn check_case(c: &Case) -> Verdict {
    let cfg_test = RunCfg { action: "test".into(), filters: c.filters.clone(), ignored: 2, ..RunCfg::default() };
    let run_test = match run_in_process(&c.spec, &cfg_test) {
        Ok(r) => r,
        Err(e) => return Verdict::Inconclusive(e),
    };
    let cfg_list = RunCfg { action: "list".into(), ..cfg_test.clone() };
    let run_list = match run_in_process(&c.spec, &cfg_list) {
        Ok(r) => r,
        Err(e) => return Verdict::Inconclusive(e),
    };
    vensure!(run_list.invocations.is_empty(), "list-runs", "listing invoked {} benchmark bodies", run_list.invocations.len());
    // The terse listing shows exactly the selected cases, one line each.
    let cfg_terse = RunCfg { action: "list-terse".into(), ..cfg_test.clone() };
    if let (Ok(terse), Some(rf)) = (run_in_process(&c.spec, &cfg_terse), RefFilters::new(&c.filters)) {
        if terse.panic.is_none() {
            let tree = twinref::build(&c.spec);
            let cases = twinref::cases(&tree);
            let expect = multiset(cases.iter().filter(|k| rf.selects(&k.path_str())).map(|k| format!("{}: benchmark", k.path_str())));
            let got = multiset(terse.stdout.lines().filter(|l| !l.is_empty()).map(|l| l.to_string()));
            if got != expect {
                let missing: Vec<_> = expect.iter().filter(|(k, v)| got.get(*k) != Some(v)).map(|(k, _)| k.clone()).collect();
                let extra: Vec<_> = got.iter().filter(|(k, v)| expect.get(*k) != Some(v)).map(|(k, _)| k.clone()).collect();
                return Verdict::fail("terse-listed", format!("--list --format terse lacks {missing:?} and shows unexpected {extra:?} for filters {:?}", c.filters));
            }
        }
    }
    match judge_selection(&c.spec, &c.filters, &run_test, Some(&run_list)) {
        Ok((sel, total, nontrivial)) => {
            classify(if sel == 0 { "none" } else if sel == total { "all" } else { "strict-subset" });
            Verdict::pass(nontrivial)
        }
        Err((sig, msg)) if sig == "__inconclusive" => Verdict::Inconclusive(msg),
        Err((sig, msg)) => Verdict::fail(sig, msg),
    }
}

/// The same through a real command line: `--skip`, positional filters, `--exact`.
pub fn check_cli(c: &Case) -> Verdict {
    // `--exact` is global on the command line.
    let exact = c.filters.first().map(|f| f.1).unwrap_or(false);
    // Skip filters given through the builder keep their own matching mode.
    let mut skip_no = 0u32;
    let mut via_builder: Vec<(bool, String)> = Vec::new();
    let mut filters: Vec<(bool, bool, String)> = Vec::new();
    let mut args: Vec<String> = vec!["--test".into(), "--include-ignored".into()];
    if exact {
        args.push("--exact".into());
    }
    for (inclusive, own_exact, pattern) in &c.filters {
        if pattern.starts_with('-') {
            return Verdict::pass(false);
        }
        if *inclusive {
            args.push(pattern.clone());
            filters.push((true, exact, pattern.clone()));
        } else {
            let builder = c.builder_skips & (1 << (skip_no % 8)) != 0;
            skip_no += 1;
            if builder {
                if !*own_exact && !twin::regex_lite_ok(pattern) {
                    return Verdict::Inconclusive("pattern rejected by regex-lite".into());
                }
                via_builder.push((*own_exact, pattern.clone()));
                filters.push((false, *own_exact, pattern.clone()));
            } else {
                args.push("--skip".into());
                args.push(pattern.clone());
                filters.push((false, exact, pattern.clone()));
            }
        }
    }
    let mut env: Vec<(String, String)> = Vec::new();
    if !via_builder.is_empty() {
        env.push(("VCHECK_TWIN_BUILDER_SKIPS".into(), serde_json::to_string(&via_builder).unwrap()));
    }
    let tag = format!("c13-{}", std::process::id());
    let (run, code, stderr) = match twin::run_child(&c.spec, &args, &env, &tag) {
        Ok(r) => r,
        Err(e) => return Verdict::Inconclusive(e),
    };
    if code == 2 {
        // clap rejected the command line (e.g. a pattern regex-lite refuses).
        return Verdict::Inconclusive(format!("command line rejected: {}", stderr.lines().next().unwrap_or("")));
    }
    vensure!(code == 0, "cli-exit", "exit code {code}: {stderr}");
    match judge_selection(&c.spec, &filters, &run, None) {
        Ok((sel, total, nontrivial)) => {
            classify(format!("{}{}", if sel == 0 { "none" } else if sel == total { "all" } else { "strict-subset" }, if via_builder.is_empty() { "" } else { "/builder-skips" }));
            Verdict::pass(nontrivial)
        }
        Err((sig, msg)) if sig == "__inconclusive" => Verdict::Inconclusive(msg),
        Err((sig, msg)) => Verdict::fail(format!("cli:{sig}"), format!("{msg}\nargs: {args:?} builder skips: {via_builder:?}")),
    }
}

pub fn case() -> impl Strategy<Value = Case> {
    twingen::spec().prop_flat_map(|spec| {
        let f = twingen::filters_for(&spec);
        (Just(spec), f, prop_oneof![1 => Just(0u8), 1 => any::<u8>()]).prop_map(|(spec, filters, builder_skips)| Case { spec, filters, builder_skips })
    })
}

#[derive(Clone, Debug, Serialize, Deserialize)]
struct PureCase {
    filters: Vec<(bool, bool, String)>,
    paths: Vec<String>,
}

fn check_pure(c: &PureCase) -> Verdict {
    let Some(rf) = RefFilters::new(&c.filters) else { return Verdict::Inconclusive("pattern".into()) };
    let paths: Vec<&str> = c.paths.iter().map(|s| s.as_str()).collect();
    let got = match divan::__verif::pure::filter_is_match(&c.filters, &paths) {
        Ok(g) => g,
        Err(_) => return Verdict::Inconclusive("pattern rejected by regex-lite".into()),
    };
    for (p, g) in c.paths.iter().zip(&got) {
        vensure!(*g == rf.selects(p), "is-match", "FilterSet::is_match({p:?}) = {g} with filters {:?} (inserted in this order), the rule says {}", c.filters, rf.selects(p));
    }
    let sel = got.iter().filter(|g| **g).count();
    Verdict::pass(sel > 0 && sel < got.len() && c.filters.len() >= 2)
}

fn groups(g: &mut Groups) {
    g.prop("twin", 12_000, 600_000, || case(), check_case);
    g.prop("cli", 800, 20_000, || case(), check_cli);
    // The same route with the command line parsed in this process (hook `__verif::cli`).
    g.prop("cli_inproc", 16_000, 400_000, || case(), |c| twin::with_cli_in_process(|| check_cli(c)));
    let word = || prop_oneof![Just("a".to_string()), Just("b".to_string()), Just("ab".to_string()), Just("c::a".to_string()), Just("c::ab::1".to_string()), Just("x".to_string()), "[abc:]{0,6}"];
    g.prop(
        "filter_set",
        120_000,
        6_000_000,
        || (proptest::collection::vec((any::<bool>(), any::<bool>(), word()), 0..=8), proptest::collection::vec(word(), 1..=8)).prop_map(|(filters, paths)| PureCase { filters, paths }),
        check_pure,
    );
}
