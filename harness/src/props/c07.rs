//! C07 — the thread pool never deadlocks, loses a wake-up or leaks workers.

use divan::__verif::sched::Failure;
use proptest::prelude::*;

use super::{
    c06,
    pool::{self, *},
    PropDef,
};
use crate::{
    engine::{classify, Verdict},
    groups::Groups,
};

pub const DEF: PropDef = PropDef {
    id: "C07",
    groups,
    rule: "histories of 1..=8 broadcasts with n 0..=5 (growing and shrinking), panicking subsets, spurious park wake-ups, stale unpark tokens pending for the caller before a broadcast, the pool dropped at the end; schedules as in C06 (sparse preemptions, dense random) plus the bounded enumeration of C06's smallest histories; \
           non-trivial = the caller actually blocked in park at least once AND in another broadcast of the same history all workers had finished before the caller parked (both racy windows), or a stale token / spurious wake-up was consumed; distinct = distinct (history, realised interleaving).",
    assumptions: &[
        "liveness is decided as: no deadlock state and termination within the step budget under every explored finite schedule; unbounded fairness arguments are out of reach of testing",
        "a panic payload whose destructor panics on a worker aborts the process by design and is not generated for worker indices",
        "same scheduler/shim trust base as C06",
    ],
    journal: true,
    timeout_s: (300, 3600),
    nshards: None,
};

pub fn check_case(c: &PoolCase) -> Verdict {
    if pool::exceeds_thread_capacity(c) {
        return Verdict::Inconclusive("more threads than the scheduler has slots".into());
    }
    let o = run_pool(c);
    match &o.report.failure {
        Some(Failure::Budget) => return Verdict::Inconclusive("step budget".into()),
        Some(Failure::Deadlock(blocked)) => {
            let caller_parked = blocked.iter().any(|b| b.starts_with("thread 0") && b.contains("Park"));
            return Verdict::fail(
                if caller_parked { "deadlock:lost-wakeup" } else { "deadlock" },
                format!("deadlock: {blocked:?}\nschedule used {} of {:?}", o.report.schedule_used, c.schedule),
            );
        }
        Some(Failure::Abort(t)) => return Verdict::fail("abort", format!("process::abort called on thread {t}")),
        Some(Failure::DeadObject(kind, op, t)) => return Verdict::fail("dead-object", format!("thread {t}: {op} on a dropped {kind}")),
        None => {}
    }
    if let Some(msg) = &o.report.body_panic {
        return Verdict::fail("body-panic", format!("unexpected panic out of the pool: {msg}"));
    }
    let finished = o.events.iter().filter(|e| matches!(e, PEv::After { .. })).count();
    if finished != c.history.len() {
        return Verdict::fail("did-not-complete", format!("{finished} of {} broadcasts completed", c.history.len()));
    }
    if c.drop_pool {
        if !o.report.leaked.is_empty() || o.report.exited != o.report.spawned {
            let _ = o.harness_spawned;
            return Verdict::fail(
                "leaked-workers",
                format!("after the pool was dropped {} of {} workers exited; still blocked: {:?}", o.report.exited, o.report.spawned, o.report.leaked),
            );
        }
    }
    // The results must be right as well (a "completed" broadcast that returned early is no completion).
    if let Err((sig, msg)) = c06::judge(c, &o) {
        if sig != "__inconclusive" {
            return Verdict::fail(format!("c06:{sig}"), msg);
        }
    }
    let with_aux = c.history.iter().filter(|b| b.n > 0).count() as u32;
    let stale = c.history.iter().any(|b| b.stale_token);
    classify(format!("parks_blocked={}", o.report.parks_blocked.min(3)));
    if stale {
        classify("stale-token");
    }
    Verdict::pass((o.report.parks_blocked >= 1 && with_aux > o.report.parks_blocked) || stale || o.report.spurious_wakeups > 0)
}

fn groups(g: &mut Groups) {
    g.enumerate("bounded_schedules", c06::enumerated, true, check_case);
    g.prop("random", 18_000, 1_800_000, || pool::pool_case(8, 5), check_case);
    // No drop at the end is not a leak: the workers are simply still waiting.
    g.prop(
        "stale_tokens",
        6_000,
        600_000,
        || pool::pool_case(5, 3).prop_map(|mut c| {
            for (i, b) in c.history.iter_mut().enumerate() {
                b.stale_token = i % 2 == 0;
            }
            c
        }),
        check_case,
    );
}
