//! C17 — each row is measured with the argument, constant and type it names.
//!
//! Twin level: the sequence of printed cases (parsed back from the real
//! output, in printed order) is zipped with the sequence of benchmark-body
//! invocations (which log the value, const label and type label they
//! *received*); every pair must agree. The macro level (every supported
//! argument iterator kind through real `#[divan::bench]` expansions) is
//! `progs`-based, see `e3`.

use proptest::prelude::*;
use serde::{Deserialize, Serialize};

use super::{
    twin::*,
    twingen,
    twinref::{self, *},
    PropDef,
};
use crate::{
    engine::{classify, Verdict},
    groups::Groups,
    vensure,
};

pub const DEF: PropDef = PropDef {
    id: "C17",
    groups,
    rule: "twin: generated trees in which most benchmarks take args (integer, string, float lists of length 0..=6, also combined with types / consts / types x consts) x 3 sort attributes x 2 directions x filter sets built from the tree (keeping strict subsets of the arguments) x thread lists; macro level: compiled programs using every supported args iterator kind (arrays, slices, ranges, Vec<String>, Box<str>, Cow<str>, &[&str], external consts) with real #[divan::bench] expansions; \
           non-trivial = a run in which the shown order of some benchmark's arguments differs from declaration order, or a filter dropped at least one argument of a benchmark that still runs (index != position); distinct by serialized case.",
    assumptions: &[
        "the benchmark body logs the rendering of the value it received, and the const / type labels of the instantiation that was actually invoked",
        "rows and invocations are matched by order: the runner executes cases in printed order",
        "the argument list's evaluation counter lives in the args expression (a closure) itself",
    ],
    journal: true,
    timeout_s: (300, 3600),
    nshards: None,
};

#[derive(Clone, Debug, Serialize, Deserialize)]
pub struct Case {
    pub spec: TwinSpec,
    pub filters: Vec<(bool, bool, String)>,
    pub sort: u8,
    pub reverse: bool,
    pub bench_mode: bool,
}

/// The printed runnable rows in printed order: `(path components)`; rows are
/// leaves of the printed tree (a `t=N` branch is one row).
fn printed_rows(nodes: &[PNode]) -> Vec<Vec<String>> {
    fn walk(n: &PNode, path: &mut Vec<String>, out: &mut Vec<Vec<String>>) {
        path.push(n.name.clone());
        if n.children.is_empty() {
            out.push(path.clone());
        } else {
            for c in &n.children {
                walk(c, path, out);
            }
        }
        path.pop();
    }
    let mut out = Vec::new();
    for n in nodes {
        walk(n, &mut Vec::new(), &mut out);
    }
    out
}

pub fn judge(spec: &TwinSpec, run: &TwinRun, has_columns: bool) -> Result<bool, (String, String)> {
    if let Some(p) = &run.panic {
        return Err(("runner-panic".into(), format!("the runner panicked: {p}")));
    }
    let printed = parse_tree(&run.stdout, has_columns).map_err(|e| ("malformed-tree".to_string(), format!("{e}\n{}", run.stdout)))?;
    let rows = printed_rows(&printed);
    // Ignored leaves print a row but do not run; this check uses --include-ignored.
    if rows.len() != run.invocations.len() {
        return Err(("rows-vs-invocations".into(), format!("{} rows are shown but {} benchmark bodies ran\n{}", rows.len(), run.invocations.len(), run.stdout)));
    }
    let tree = twinref::build(spec);
    let cases = twinref::cases(&tree);
    let mut reordered = false;
    let mut last_arg_index: Option<(u32, Option<String>, Option<String>, usize)> = None;
    for (row, inv) in rows.iter().zip(&run.invocations) {
        let mut comps: Vec<&String> = row.iter().collect();
        // Strip a thread branch.
        if let Some(last) = comps.last() {
            if let Some(t) = last.strip_prefix("t=") {
                if t.parse::<usize>().ok() != Some(inv.thread_count) {
                    return Err(("thread-branch".into(), format!("row {row:?} ran with {} threads", inv.thread_count)));
                }
                comps.pop();
            }
        }
        // The reference case the body says it is.
        let Some(case) = cases.iter().find(|c| c.uid == inv.uid && c.type_label == inv.type_label && c.const_label == inv.const_label && c.arg == inv.arg) else {
            return Err((
                "no-such-case".into(),
                format!("row {row:?}: the body that ran reports uid {} type {:?} const {:?} argument {:?}, which is not a declared case", inv.uid, inv.type_label, inv.const_label, inv.arg),
            ));
        };
        let want: Vec<&String> = case.path.iter().collect();
        if comps != want {
            let what = if comps.last() != want.last() && inv.arg.is_some() {
                "argument"
            } else if inv.const_label.is_some() || inv.type_label.is_some() {
                "instantiation"
            } else {
                "benchmark"
            };
            return Err((
                format!("label-vs-received:{what}"),
                format!("the row labelled {:?} invoked the case {:?} (received argument {:?}, const {:?}, type {:?})\n{}", row.join("::"), case.path_str(), inv.arg, inv.const_label, inv.type_label, run.stdout),
            ));
        }
        if let Some(idx) = case.arg_index {
            if let Some((uid, t, c, prev)) = &last_arg_index {
                if *uid == inv.uid && *t == inv.type_label && *c == inv.const_label && idx < *prev {
                    reordered = true;
                }
            }
            last_arg_index = Some((inv.uid, inv.type_label.clone(), inv.const_label.clone(), idx));
        }
    }
    // The argument list is evaluated once per process per benchmark.
    let mut evals_by_uid: std::collections::BTreeMap<u32, u32> = std::collections::BTreeMap::new();
    {
        // Slot order = registration order (see twin::register).
        let mut slot = 0usize;
        for item in &spec.items {
            match item {
                Item::Group(_) => slot += 1,
                Item::Bench(b) => {
                    let n = if b.is_generic() { 1 + b.types.as_ref().map(|t| t.len()).unwrap_or(1) * b.consts.as_ref().map(|c| c.len()).unwrap_or(1) } else { 1 };
                    for k in slot..slot + n {
                        *evals_by_uid.entry(b.uid).or_default() += run.arg_evals.get(k).copied().unwrap_or(0);
                    }
                    slot += n;
                }
            }
        }
    }
    for item in &spec.items {
        if let Item::Bench(b) = item {
            if b.args.is_some() {
                let registered_something = !(b.types.as_ref().map(|t| t.is_empty()).unwrap_or(false) || b.consts.as_ref().map(|c| c.len() == 0).unwrap_or(false));
                let evals = evals_by_uid.get(&b.uid).copied().unwrap_or(0);
                if registered_something && evals != 1 {
                    return Err(("args-evaluated".into(), format!("the args expression of benchmark uid {} ({}) was evaluated {evals} times in one process", b.uid, b.meta.raw_name)));
                }
            }
        }
    }
    Ok(reordered)
}

pub fn check_case(c: &Case) -> Verdict {
    let cfg = RunCfg {
        action: if c.bench_mode { "bench".into() } else { "test".into() },
        filters: c.filters.clone(),
        sort: c.sort,
        reverse: c.reverse,
        ignored: 2,
        options: OptSpec { sample_count: Some(1), sample_size: Some(1), ..OptSpec::default() },
        ..RunCfg::default()
    };
    let run = match run_in_process(&c.spec, &cfg) {
        Ok(r) => r,
        Err(e) => return Verdict::Inconclusive(e),
    };
    match judge(&c.spec, &run, c.bench_mode) {
        Ok(reordered) => {
            let tree = twinref::build(&c.spec);
            let cases = twinref::cases(&tree);
            let rf = RefFilters::new(&c.filters);
            let dropped = rf
                .map(|rf| {
                    cases.iter().any(|k| k.arg.is_some() && !rf.selects(&k.path_str()) && cases.iter().any(|d| d.uid == k.uid && d.arg.is_some() && d.arg_index > k.arg_index && rf.selects(&d.path_str())))
                })
                .unwrap_or(false);
            classify(format!("sort={}{}{}", c.sort, if c.reverse { "r" } else { "" }, if dropped { "/dropped" } else { "" }));
            Verdict::pass(reordered || dropped)
        }
        Err((sig, msg)) => Verdict::fail(sig, msg),
    }
}

pub fn case() -> impl Strategy<Value = Case> {
    twingen::spec_args_heavy().prop_flat_map(|spec| {
        let f = twingen::filters_for(&spec);
        (Just(spec), prop_oneof![1 => Just(Vec::new()), 2 => f], 0u8..=2, any::<bool>(), prop::bool::weighted(0.2)).prop_map(|(spec, filters, sort, reverse, bench_mode)| Case { spec, filters, sort, reverse, bench_mode })
    })
}

fn groups(g: &mut Groups) {
    g.prop("twin", 15_000, 1_800_000, || case(), check_case);
    super::e3::c17_groups(g);
    let _ = vensure_unused;
}

fn vensure_unused() -> Verdict {
    vensure!(true, "", "");
    Verdict::pass(false)
}
