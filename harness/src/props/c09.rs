//! C09 — AllocProfiler is a transparent wrapper around the wrapped allocator.
//!
//! A scripted mock `GlobalAlloc` records every call it receives and returns
//! scripted values. The request sequence is issued through
//! `AllocProfiler<Mock>`; the mock's log must equal the request sequence and
//! every return value must be the scripted one. While a wrapper call is in
//! progress the process's real global allocator counts calls arriving from the
//! same thread (allocation / re-entry), which must be zero. Three execution
//! contexts: an established thread, a freshly spawned thread whose first
//! action is the call, and a thread-local destructor during thread tear-down.

use std::{
    alloc::{GlobalAlloc, Layout},
    cell::{Cell, RefCell},
    sync::{Arc, Mutex},
};

use divan::AllocProfiler;
use proptest::prelude::*;
use serde::{Deserialize, Serialize};

use super::PropDef;
use crate::{
    engine::{classify, Verdict},
    galloc,
    groups::Groups,
};

pub const DEF: PropDef = PropDef {
    id: "C09",
    groups,
    rule: "request sequences (1..=200 calls) over alloc / alloc_zeroed / realloc / dealloc with valid layouts (size 0, small, 2^k, up to isize::MAX - align + 1; align 2^0..2^12), arbitrary non-null pointer arguments, scripted inner return values incl. null, executed on an established thread, on a fresh thread whose first action is the call, or inside a thread-local destructor at thread exit; the process-wide ignore-tallies flag on in a fifth of the cases; \
           non-trivial = the sequence contains a null return AND a realloc, or runs in the fresh-thread / tear-down context; distinct = distinct serialized case.",
    assumptions: &[
        "the mock inner allocator never touches memory; pointers are opaque integers",
        "re-entry / allocation is observed through the process's real #[global_allocator] (any call arriving on the same thread while a wrapper call is in progress) — a wrapper that allocated through another allocator would not be seen",
        "thread tear-down is exercised for Linux ELF TLS only (the macOS pthread-key path is not compiled here)",
    ],
    journal: true,
    timeout_s: (180, 3600),
    nshards: None,
};

#[derive(Clone, Copy, Debug, PartialEq, Eq, Serialize, Deserialize)]
enum Req {
    Alloc { size: u64, align_log2: u8, ret: u64 },
    AllocZeroed { size: u64, align_log2: u8, ret: u64 },
    Realloc { ptr: u64, size: u64, align_log2: u8, new_size: u64, ret: u64 },
    Dealloc { ptr: u64, size: u64, align_log2: u8 },
}

#[derive(Clone, Copy, Debug, PartialEq, Eq, Serialize, Deserialize)]
enum Context {
    Established,
    FreshThread,
    TlsDestructor,
}

#[derive(Clone, Debug, Serialize, Deserialize)]
struct Case {
    context: Context,
    /// Tear-down context only: use the wrapper once before the thread exits.
    prime: bool,
    /// TLS-destructor context: a first wrapper call made *after* the guard's
    /// thread-local was registered, so that the profiler's own thread-local
    /// (if it has a destructor) is torn down *before* the guard's destructor
    /// issues the requests.
    #[serde(default)]
    prime_late: bool,
    reqs: Vec<Req>,
    /// The process-wide "ignore allocation tallies" flag (set by divan's own
    /// benchmarks of the profiler) is on while the requests are issued.
    #[serde(default)]
    ignore_alloc: bool,
}

#[derive(Clone, Copy, Debug, PartialEq, Eq)]
enum Call {
    Alloc { size: usize, align: usize },
    AllocZeroed { size: usize, align: usize },
    Realloc { ptr: usize, size: usize, align: usize, new_size: usize },
    Dealloc { ptr: usize, size: usize, align: usize },
}

struct MockState {
    log: Vec<Call>,
    next_ret: usize,
}

thread_local! {
    /// The mock state of the drive in progress on this thread. A `const`
    /// `Cell` without destructor, so it stays usable during thread tear-down.
    static ACTIVE: Cell<*mut MockState> = const { Cell::new(std::ptr::null_mut()) };
}

/// Mock inner allocator: logs every call into the active `MockState` and
/// returns the value scripted for that call. Never touches memory.
struct Mock;

impl Mock {
    fn record(call: Call) -> usize {
        // The mock's own bookkeeping is not the wrapper's doing.
        galloc::unwatched(|| {
            let state = ACTIVE.with(|a| a.get());
            assert!(!state.is_null(), "mock called outside a drive");
            let state = unsafe { &mut *state };
            state.log.push(call);
            state.next_ret
        })
    }
}

unsafe impl GlobalAlloc for Mock {
    unsafe fn alloc(&self, layout: Layout) -> *mut u8 {
        Self::record(Call::Alloc { size: layout.size(), align: layout.align() }) as *mut u8
    }
    unsafe fn alloc_zeroed(&self, layout: Layout) -> *mut u8 {
        Self::record(Call::AllocZeroed { size: layout.size(), align: layout.align() }) as *mut u8
    }
    unsafe fn realloc(&self, ptr: *mut u8, layout: Layout, new_size: usize) -> *mut u8 {
        Self::record(Call::Realloc { ptr: ptr as usize, size: layout.size(), align: layout.align(), new_size }) as *mut u8
    }
    unsafe fn dealloc(&self, ptr: *mut u8, layout: Layout) {
        Self::record(Call::Dealloc { ptr: ptr as usize, size: layout.size(), align: layout.align() });
    }
}

static PROFILER: AllocProfiler<Mock> = AllocProfiler::new(Mock);

fn clamp_layout(size: u64, align_log2: u8) -> Layout {
    let align = 1usize << (align_log2 % 13);
    let max = isize::MAX as usize - (align - 1);
    Layout::from_size_align((size as usize).min(max), align).expect("valid layout")
}

fn to_call(req: &Req) -> (Call, usize) {
    match *req {
        Req::Alloc { size, align_log2, ret } => {
            let l = clamp_layout(size, align_log2);
            (Call::Alloc { size: l.size(), align: l.align() }, ret as usize)
        }
        Req::AllocZeroed { size, align_log2, ret } => {
            let l = clamp_layout(size, align_log2);
            (Call::AllocZeroed { size: l.size(), align: l.align() }, ret as usize)
        }
        Req::Realloc { ptr, size, align_log2, new_size, ret } => {
            let l = clamp_layout(size, align_log2);
            let max = isize::MAX as usize - (l.align() - 1);
            (Call::Realloc { ptr: (ptr as usize).max(1), size: l.size(), align: l.align(), new_size: (new_size as usize).min(max) }, ret as usize)
        }
        Req::Dealloc { ptr, size, align_log2 } => {
            let l = clamp_layout(size, align_log2);
            (Call::Dealloc { ptr: (ptr as usize).max(1), size: l.size(), align: l.align() }, 0)
        }
    }
}

#[derive(Debug, Default)]
struct Outcome {
    mismatch: Option<(String, String)>,
    reentrant_calls: u32,
}

/// Issues the requests through `AllocProfiler<Mock>` on the current thread.
fn drive(reqs: &[Req]) -> Outcome {
    let mut state = MockState { log: Vec::with_capacity(reqs.len() + 4), next_ret: 0 };
    let mut expected: Vec<Call> = Vec::with_capacity(reqs.len());
    let mut outcome = Outcome::default();
    ACTIVE.with(|a| a.set(&mut state));
    for (i, req) in reqs.iter().enumerate() {
        let (call, scripted) = to_call(req);
        unsafe { (*ACTIVE.with(|a| a.get())).next_ret = scripted };
        expected.push(call);
        // A panic inside the wrapper (e.g. an arithmetic overflow in a build
        // with overflow checks) is a request that was not forwarded.
        let (got, hits) = galloc::watch(|| std::panic::catch_unwind(|| unsafe {
            match call {
                Call::Alloc { size, align } => Some(PROFILER.alloc(Layout::from_size_align_unchecked(size, align)) as usize),
                Call::AllocZeroed { size, align } => Some(PROFILER.alloc_zeroed(Layout::from_size_align_unchecked(size, align)) as usize),
                Call::Realloc { ptr, size, align, new_size } => {
                    Some(PROFILER.realloc(ptr as *mut u8, Layout::from_size_align_unchecked(size, align), new_size) as usize)
                }
                Call::Dealloc { ptr, size, align } => {
                    PROFILER.dealloc(ptr as *mut u8, Layout::from_size_align_unchecked(size, align));
                    None
                }
            }
        }));
        let got = match got {
            Ok(g) => g,
            Err(payload) => {
                let what = payload.downcast_ref::<&str>().map(|s| s.to_string()).or_else(|| payload.downcast_ref::<String>().cloned()).unwrap_or_default();
                std::mem::forget(payload);
                outcome.mismatch = Some(("wrapper-panicked".into(), format!("request #{i} {req:?}: the wrapper panicked ({what}) instead of forwarding the request")));
                break;
            }
        };
        outcome.reentrant_calls += hits;
        if let Some(got) = got {
            if got != scripted && outcome.mismatch.is_none() {
                outcome.mismatch = Some((
                    "return-value".into(),
                    format!("request #{i} {req:?}: wrapper returned {got:#x}, inner allocator returned {scripted:#x}"),
                ));
            }
        }
    }
    ACTIVE.with(|a| a.set(std::ptr::null_mut()));
    let log = state.log;
    if outcome.mismatch.is_none() && log != expected {
        let i = log.iter().zip(&expected).position(|(a, b)| a != b).unwrap_or(log.len().min(expected.len()));
        outcome.mismatch = Some((
            "call-log".into(),
            format!(
                "inner allocator saw {} calls for {} requests; first difference at #{i}: saw {:?}, requested {:?}",
                log.len(),
                expected.len(),
                log.get(i),
                expected.get(i)
            ),
        ));
    }
    outcome
}

struct Guard {
    reqs: Vec<Req>,
    result: Arc<Mutex<Option<Outcome>>>,
}

impl Drop for Guard {
    fn drop(&mut self) {
        // Runs while the thread's locals are being destroyed.
        let outcome = drive(&self.reqs);
        *self.result.lock().unwrap() = Some(outcome);
    }
}

thread_local! {
    static GUARD: RefCell<Option<Guard>> = const { RefCell::new(None) };
}

fn check_case(case: &Case) -> Verdict {
    divan::__verif::alloc::set_ignore_alloc(case.ignore_alloc);
    let v = check_case_inner(case);
    divan::__verif::alloc::set_ignore_alloc(false);
    v
}

fn check_case_inner(case: &Case) -> Verdict {
    let outcome = match case.context {
        Context::Established => {
            // The verdict must be a function of the case alone: start from an
            // empty tally (the other contexts start on a new thread).
            divan::__verif::alloc::clear();
            drive(&case.reqs)
        }
        Context::FreshThread => {
            let reqs = case.reqs.clone();
            // (start-up allocations of the thread bypass the profiler too)
            match galloc::bypass_all(|| {
                std::thread::spawn(move || {
                    // First action on this thread that involves the wrapper.
                    galloc::set_bypass(true);
                    drive(&reqs)
                })
                .join()
            }) {
                Ok(o) => o,
                Err(_) => return Verdict::fail("thread-panic", "wrapper call panicked on a fresh thread"),
            }
        }
        Context::TlsDestructor => {
            let result: Arc<Mutex<Option<Outcome>>> = Arc::new(Mutex::new(None));
            let reqs = case.reqs.clone();
            let prime = case.prime;
            let prime_late = case.prime_late;
            let slot = result.clone();
            // The thread's own start-up must not be the first use of the
            // profiler on it (that would fix the order of the thread-local
            // destructors): nothing reaches the harness's profiled global
            // allocator while the thread lives.
            let joined = galloc::bypass_all(|| {
                std::thread::spawn(move || {
                    galloc::set_bypass(true);
                    if prime {
                        let _ = drive(&[Req::Alloc { size: 1, align_log2: 0, ret: 8 }]);
                    }
                    GUARD.with(|g| *g.borrow_mut() = Some(Guard { reqs, result: slot }));
                    if prime_late {
                        let _ = drive(&[Req::Alloc { size: 1, align_log2: 0, ret: 8 }]);
                    }
                })
                .join()
            });
            if joined.is_err() {
                return Verdict::fail("thread-panic", "wrapper call panicked during thread tear-down");
            }
            let taken = result.lock().unwrap().take();
            match taken {
                Some(o) => o,
                None => return Verdict::Inconclusive("thread-local destructor did not run".into()),
            }
        }
    };
    if let Some((sig, msg)) = outcome.mismatch {
        return Verdict::fail(sig, format!("[{:?}] {msg}", case.context));
    }
    if outcome.reentrant_calls != 0 {
        return Verdict::fail(
            "allocates-or-reenters",
            format!("[{:?}] {} call(s) reached the global allocator from inside wrapper calls", case.context, outcome.reentrant_calls),
        );
    }
    classify(format!("{:?}{}{}", case.context, if case.prime { "/primed" } else { "" }, if case.prime_late { "/primed-late" } else { "" }));
    let has_null = case.reqs.iter().any(|r| matches!(r, Req::Alloc { ret: 0, .. } | Req::AllocZeroed { ret: 0, .. } | Req::Realloc { ret: 0, .. }));
    let has_realloc = case.reqs.iter().any(|r| matches!(r, Req::Realloc { .. }));
    Verdict::pass((has_null && has_realloc) || (case.context != Context::Established && !case.reqs.is_empty()))
}

fn size() -> impl Strategy<Value = u64> {
    prop_oneof![
        3 => 0u64..=64,
        2 => 0u64..=1_000_000,
        2 => (0u32..=62).prop_map(|k| 1u64 << k),
        1 => (1u32..=63).prop_map(|k| (1u64 << k) - 1),
        1 => Just(isize::MAX as u64),
        1 => (0u64..=4096).prop_map(|d| isize::MAX as u64 - d),
        1 => Just(0u64),
    ]
}

fn ptr() -> impl Strategy<Value = u64> {
    prop_oneof![Just(1u64), Just(8), Just(u64::MAX), any::<u64>().prop_map(|p| p.max(1)), (3u32..48).prop_map(|k| 1u64 << k)]
}

fn ret() -> impl Strategy<Value = u64> {
    prop_oneof![2 => Just(0u64), 1 => Just(1u64), 1 => Just(u64::MAX), 4 => any::<u64>()]
}

fn req() -> impl Strategy<Value = Req> {
    prop_oneof![
        3 => (size(), 0u8..=12, ret()).prop_map(|(size, align_log2, ret)| Req::Alloc { size, align_log2, ret }),
        2 => (size(), 0u8..=12, ret()).prop_map(|(size, align_log2, ret)| Req::AllocZeroed { size, align_log2, ret }),
        3 => (ptr(), size(), 0u8..=12, size(), ret()).prop_map(|(ptr, size, align_log2, new_size, ret)| Req::Realloc { ptr, size, align_log2, new_size, ret }),
        3 => (ptr(), size(), 0u8..=12).prop_map(|(ptr, size, align_log2)| Req::Dealloc { ptr, size, align_log2 }),
    ]
}

fn groups(g: &mut Groups) {
    g.prop(
        "established",
        60_000,
        3_000_000,
        || (proptest::collection::vec(req(), 1..=200), prop::bool::weighted(0.2)).prop_map(|(reqs, ignore_alloc)| Case { context: Context::Established, prime: false, prime_late: false, reqs, ignore_alloc }),
        check_case,
    );
    g.prop(
        "fresh_thread",
        6_000,
        200_000,
        || (proptest::collection::vec(req(), 1..=40), prop::bool::weighted(0.2)).prop_map(|(reqs, ignore_alloc)| Case { context: Context::FreshThread, prime: false, prime_late: false, reqs, ignore_alloc }),
        check_case,
    );
    g.prop(
        "tls_destructor",
        6_000,
        200_000,
        || (proptest::collection::vec(req(), 1..=40), any::<bool>(), any::<bool>(), prop::bool::weighted(0.2)).prop_map(|(reqs, prime, prime_late, ignore_alloc)| Case { context: Context::TlsDestructor, prime, prime_late, reqs, ignore_alloc }),
        check_case,
    );
}
