//! In-process twin of a benchmark crate: a generated *spec* of modules,
//! groups, benchmarks (plain, with args, generic over types/consts) is turned
//! into exactly the registry entries the `#[divan::bench]` /
//! `#[divan::bench_group]` macros emit (built from the public `__private`
//! structs, pushed through the public `EntryList::push`), and the real runner
//! (`Divan::main` / `run_action`) is driven over it. Benchmark bodies log what
//! they received. The same spec can be run in a child process (`vcheck` started
//! with `VCHECK_TWIN_CHILD`) so that real command lines and environment
//! variables go through `divan::main()`.

use std::{
    borrow::Cow,
    cell::Cell,
    fmt,
    sync::{
        atomic::{AtomicU64, Ordering::SeqCst},
        LazyLock, Mutex, RwLock,
    },
    time::Duration,
};

use divan::{
    counter::{BytesCount, CharsCount, CyclesCount, ItemsCount},
    Bencher, Divan,
    __private::{
        BenchArgs, BenchEntry, BenchEntryRunner, BenchOptions, EntryConst, EntryList, EntryLocation, EntryMeta, EntryType, GenericBenchEntry,
        GroupEntry, BENCH_ENTRIES, GROUP_ENTRIES,
    },
    __verif::{
        bench::{bencher_view, OptionsView, VAction},
        clock,
        runner::{self, RunnerCfg},
    },
};
use serde::{Deserialize, Serialize};

use crate::{capture, engine::catch};

// ---------------------------------------------------------------------------
// Spec

#[derive(Clone, Debug, Default, PartialEq, Serialize, Deserialize)]
pub struct OptSpec {
    pub sample_count: Option<u32>,
    pub sample_size: Option<u32>,
    pub threads: Option<Vec<usize>>,
    /// bytes, chars, cycles, items
    pub counters: [Option<u64>; 4],
    /// nanoseconds
    pub min_time_ns: Option<u64>,
    pub max_time_ns: Option<u64>,
    pub skip_ext_time: Option<bool>,
    pub ignore: Option<bool>,
}

impl OptSpec {
    pub fn is_empty(&self) -> bool {
        *self == OptSpec::default()
    }

    pub fn to_options(&self) -> BenchOptions<'static> {
        let mut counters = divan::__private::new_counter_set();
        if let Some(v) = self.counters[0] {
            counters.insert(BytesCount::new(v));
        }
        if let Some(v) = self.counters[1] {
            counters.insert(CharsCount::new(v));
        }
        if let Some(v) = self.counters[2] {
            counters.insert(CyclesCount::new(v));
        }
        if let Some(v) = self.counters[3] {
            counters.insert(ItemsCount::new(v));
        }
        BenchOptions {
            sample_count: self.sample_count,
            sample_size: self.sample_size,
            threads: self.threads.clone().map(|t| Cow::Owned(normalize_threads_attr(t))),
            counters,
            min_time: self.min_time_ns.map(Duration::from_nanos),
            max_time: self.max_time_ns.map(Duration::from_nanos),
            skip_ext_time: self.skip_ext_time,
            ignore: self.ignore,
        }
    }
}

/// What `IntoThreads` does to an attribute's list: sort + dedup (0 kept).
pub fn normalize_threads_attr(mut t: Vec<usize>) -> Vec<usize> {
    t.sort_unstable();
    t.dedup();
    t
}

#[derive(Clone, Debug, PartialEq, Eq, Serialize, Deserialize)]
pub struct Loc {
    pub file: String,
    pub line: u32,
    pub col: u32,
}

#[derive(Clone, Debug, PartialEq, Serialize, Deserialize)]
pub struct Meta {
    /// Module path components including the crate name (raw identifiers).
    pub module_path: Vec<String>,
    /// Identifier of the item (may start with `r#`).
    pub raw_name: String,
    /// `name = "..."`.
    pub custom_name: Option<String>,
    pub loc: Loc,
    /// `None`: the attribute sets no option at all.
    pub options: Option<OptSpec>,
}

impl Meta {
    pub fn display_name(&self) -> String {
        match &self.custom_name {
            Some(n) => n.clone(),
            None => self.raw_name.strip_prefix("r#").unwrap_or(&self.raw_name).to_string(),
        }
    }
}

#[derive(Clone, Debug, PartialEq, Serialize, Deserialize)]
pub enum ArgList {
    Ints(Vec<i64>),
    Strs(Vec<String>),
    Floats(Vec<f64>),
}

impl ArgList {
    pub fn values(&self) -> Vec<ArgVal> {
        match self {
            ArgList::Ints(v) => v.iter().map(|&x| ArgVal::Int(x)).collect(),
            ArgList::Strs(v) => v.iter().map(|x| ArgVal::Str(x.clone())).collect(),
            ArgList::Floats(v) => v.iter().map(|&x| ArgVal::Float(x)).collect(),
        }
    }

    pub fn names(&self) -> Vec<String> {
        self.values().iter().map(|v| v.to_string()).collect()
    }

    pub fn len(&self) -> usize {
        match self {
            ArgList::Ints(v) => v.len(),
            ArgList::Strs(v) => v.len(),
            ArgList::Floats(v) => v.len(),
        }
    }
}

#[derive(Clone, Debug, PartialEq)]
pub enum ArgVal {
    Int(i64),
    Str(String),
    Float(f64),
}

impl fmt::Display for ArgVal {
    fn fmt(&self, f: &mut fmt::Formatter) -> fmt::Result {
        match self {
            ArgVal::Int(v) => write!(f, "{v}"),
            ArgVal::Str(v) => write!(f, "{v}"),
            ArgVal::Float(v) => write!(f, "{v}"),
        }
    }
}

#[derive(Clone, Debug, PartialEq, Serialize, Deserialize)]
pub enum ConstList {
    Usize(Vec<usize>),
    I32(Vec<i32>),
    Char(Vec<char>),
    Bool(Vec<bool>),
}

impl ConstList {
    pub fn names(&self) -> Vec<String> {
        match self {
            ConstList::Usize(v) => v.iter().map(|x| x.to_string()).collect(),
            ConstList::I32(v) => v.iter().map(|x| x.to_string()).collect(),
            ConstList::Char(v) => v.iter().map(|x| x.to_string()).collect(),
            ConstList::Bool(v) => v.iter().map(|x| x.to_string()).collect(),
        }
    }

    pub fn len(&self) -> usize {
        self.names().len()
    }
}

#[derive(Clone, Copy, Debug, PartialEq, Eq, Serialize, Deserialize)]
pub enum Body {
    /// `bencher.bench(|| ())`
    Bench,
    /// `bencher.with_inputs(..).input_counter(items).bench_values(..)`
    WithInputs,
    /// `bencher.counter(BytesCount::new(7)).bench(..)`
    SetsBytesCounter,
    /// Does not call any `bench*` method.
    NoRun,
}

#[derive(Clone, Debug, PartialEq, Serialize, Deserialize)]
pub struct BenchSpec {
    pub meta: Meta,
    pub args: Option<ArgList>,
    /// Indices into the type pool (`types = [...]`).
    pub types: Option<Vec<u8>>,
    pub consts: Option<ConstList>,
    pub body: Body,
    pub uid: u32,
}

impl BenchSpec {
    pub fn is_generic(&self) -> bool {
        self.types.is_some() || self.consts.is_some()
    }
}

#[derive(Clone, Debug, PartialEq, Serialize, Deserialize)]
pub enum Item {
    Bench(BenchSpec),
    /// `#[divan::bench_group]` on module `meta.raw_name` inside `meta.module_path`.
    Group(Meta),
}

#[derive(Clone, Debug, PartialEq, Serialize, Deserialize)]
pub struct TwinSpec {
    /// In registration (constructor) order.
    pub items: Vec<Item>,
}

// ---------------------------------------------------------------------------
// Type pool for `types = [...]`

pub mod types {
    pub struct Alpha;
    pub struct Beta;
    pub mod inner {
        pub struct Gamma;
        pub mod deeper {
            pub struct Delta;
        }
    }
    pub struct Wrap<const N: usize>;
    pub struct Pair<A, B>(pub A, pub B);
}

pub const TYPE_POOL_LEN: usize = 10;

/// `(display name the runner must show, raw type name suffix)`.
pub fn type_display(i: u8) -> &'static str {
    match i as usize % TYPE_POOL_LEN {
        0 => "Alpha",
        1 => "Beta",
        2 => "Gamma",
        3 => "Delta",
        4 => "Wrap<4>",
        5 => "Wrap<16>",
        6 => "i32",
        7 => "String",
        8 => "Vec<i32>",
        _ => "Pair<vcheck::props::twin::types::Alpha, alloc::string::String>",
    }
}

fn entry_type(i: u8) -> EntryType {
    use types::*;
    match i as usize % TYPE_POOL_LEN {
        0 => EntryType::new::<Alpha>(),
        1 => EntryType::new::<Beta>(),
        2 => EntryType::new::<inner::Gamma>(),
        3 => EntryType::new::<inner::deeper::Delta>(),
        4 => EntryType::new::<Wrap<4>>(),
        5 => EntryType::new::<Wrap<16>>(),
        6 => EntryType::new::<i32>(),
        7 => EntryType::new::<String>(),
        8 => EntryType::new::<Vec<i32>>(),
        _ => EntryType::new::<Pair<Alpha, String>>(),
    }
}

// ---------------------------------------------------------------------------
// Runtime tables behind the static runner functions

pub const SLOTS: usize = 160;

#[derive(Clone, Default)]
struct Slot {
    uid: u32,
    body: Option<Body>,
    /// Label of the generic instantiation this slot stands for.
    type_label: Option<String>,
    const_label: Option<String>,
    args: Option<Vec<ArgVal>>,
    bench_args: Option<&'static BenchArgs>,
    options: Option<OptSpec>,
}

static TABLE: LazyLock<RwLock<Vec<Slot>>> = LazyLock::new(|| RwLock::new(vec![Slot::default(); SLOTS]));

/// One invocation of a benchmark body by the runner.
#[derive(Clone, Debug, PartialEq, Serialize, Deserialize)]
pub struct Invocation {
    pub uid: u32,
    pub type_label: Option<String>,
    pub const_label: Option<String>,
    /// Rendering of the argument value the body *received*.
    pub arg: Option<String>,
    pub thread_count: usize,
    pub is_test: bool,
    pub is_bench: bool,
    pub sample_count: Option<u32>,
    pub sample_size: Option<u32>,
    pub threads: Option<Vec<usize>>,
    pub counters: [Option<u64>; 4],
    pub collection_counts: [Vec<u64>; 4],
    pub min_time_ns: Option<u64>,
    pub max_time_ns: Option<u64>,
    pub skip_ext_time: Option<bool>,
    pub ignore: Option<bool>,
    /// Calls of the benchmarked closure.
    pub calls: u64,
}

static INVOCATIONS: Mutex<Vec<Invocation>> = Mutex::new(Vec::new());
/// How often each slot's argument list was evaluated.
static ARG_EVALS: LazyLock<Mutex<Vec<u32>>> = LazyLock::new(|| Mutex::new(vec![0; SLOTS]));
static CALLS: AtomicU64 = AtomicU64::new(0);

fn record(slot: &Slot, view: OptionsView, arg: Option<String>, calls: u64) {
    INVOCATIONS.lock().unwrap().push(Invocation {
        uid: slot.uid,
        type_label: slot.type_label.clone(),
        const_label: slot.const_label.clone(),
        arg,
        thread_count: view.thread_count,
        is_test: view.is_test,
        is_bench: view.is_bench,
        sample_count: view.sample_count,
        sample_size: view.sample_size,
        threads: view.threads,
        counters: view.counters,
        collection_counts: view.collection_counts,
        min_time_ns: view.min_time.map(|d| d.as_nanos() as u64),
        max_time_ns: view.max_time.map(|d| d.as_nanos() as u64),
        skip_ext_time: view.skip_ext_time,
        ignore: view.ignore,
        calls,
    });
}

fn run_body(k: usize, bencher: Bencher, arg: Option<String>) {
    EPOCH.fetch_add(1, SeqCst);
    let slot = TABLE.read().unwrap()[k].clone();
    let before = CALLS.load(SeqCst);
    let body = slot.body.unwrap_or(Body::Bench);
    let view;
    match body {
        Body::Bench => {
            view = bencher_view(&bencher);
            bencher.bench(|| {
                CALLS.fetch_add(1, SeqCst);
            });
        }
        Body::WithInputs => {
            let b = bencher.with_inputs(|| 3usize).input_counter(|n: &usize| ItemsCount::new(*n));
            view = bencher_view(&b);
            b.bench_values(|n| {
                CALLS.fetch_add(1, SeqCst);
                n
            });
        }
        Body::SetsBytesCounter => {
            let b = bencher.with_inputs(|| ()).counter(BytesCount::new(7u64));
            view = bencher_view(&b);
            b.bench_values(|_| {
                CALLS.fetch_add(1, SeqCst);
            });
        }
        Body::NoRun => {
            view = bencher_view(&bencher);
            drop(bencher);
        }
    }
    record(&slot, view, arg, CALLS.load(SeqCst) - before);
}

fn plain_runner<const K: usize>(bencher: Bencher) {
    run_body(K, bencher, None);
}

fn options_fn<const K: usize>() -> BenchOptions<'static> {
    TABLE.read().unwrap()[K].options.clone().unwrap_or_default().to_options()
}

/// `BenchEntryRunner::Args(|| ARGS.runner(..))` exactly as the macro emits it
/// (the closure captures nothing, `K` is a const parameter).
fn args_runner<const K: usize>() -> BenchEntryRunner {
    BenchEntryRunner::Args(|| {
        let (bench_args, values) = {
            let t = TABLE.read().unwrap();
            (t[K].bench_args.expect("args slot"), t[K].args.clone().unwrap_or_default())
        };
        bench_args.runner(
            move || {
                ARG_EVALS.lock().unwrap()[K] += 1;
                values
            },
            |arg: &ArgVal| arg.to_string(),
            |bencher, arg: &ArgVal| run_body(K, bencher, Some(arg.to_string())),
        )
    })
}

macro_rules! fn_tables {
    ($($k:literal)*) => {
        static PLAIN: [fn(Bencher); SLOTS] = [$(plain_runner::<$k>),*];
        static ARGS: [fn() -> BenchEntryRunner; SLOTS] = [$(args_runner::<$k>),*];
        static OPTS: [fn() -> BenchOptions<'static>; SLOTS] = [$(options_fn::<$k>),*];
    };
}

fn_tables!(0 1 2 3 4 5 6 7 8 9 10 11 12 13 14 15 16 17 18 19 20 21 22 23 24 25 26 27 28 29 30 31 32 33 34 35 36 37 38 39
    40 41 42 43 44 45 46 47 48 49 50 51 52 53 54 55 56 57 58 59 60 61 62 63 64 65 66 67 68 69 70 71 72 73 74 75 76 77 78 79
    80 81 82 83 84 85 86 87 88 89 90 91 92 93 94 95 96 97 98 99 100 101 102 103 104 105 106 107 108 109 110 111 112 113 114 115 116 117 118 119
    120 121 122 123 124 125 126 127 128 129 130 131 132 133 134 135 136 137 138 139 140 141 142 143 144 145 146 147 148 149 150 151 152 153 154 155 156 157 158 159);

// ---------------------------------------------------------------------------
// Building the registry

fn leak_str(s: &str) -> &'static str {
    Box::leak(s.to_string().into_boxed_str())
}

/// Slots needed by a spec.
pub fn slots_needed(spec: &TwinSpec) -> usize {
    spec.items
        .iter()
        .map(|i| match i {
            Item::Group(_) => 1,
            Item::Bench(b) => {
                if b.is_generic() {
                    let t = b.types.as_ref().map(|t| t.len()).unwrap_or(1);
                    let c = b.consts.as_ref().map(|c| c.len()).unwrap_or(1);
                    1 + t * c
                } else {
                    1
                }
            }
        })
        .sum()
}

fn meta_of(m: &Meta, slot: usize) -> EntryMeta {
    EntryMeta {
        display_name: leak_str(&m.display_name()),
        raw_name: leak_str(&m.raw_name),
        module_path: leak_str(&m.module_path.join("::")),
        location: EntryLocation { file: leak_str(&m.loc.file), line: m.loc.line, col: m.loc.col },
        bench_options: m.options.as_ref().map(|_| LazyLock::new(OPTS[slot])),
    }
}

/// Empties the registry and registers the spec's items in order. (Entries are
/// leaked: they are small, and divan may keep `'static` references to them.)
pub fn register(spec: &TwinSpec) -> Result<(), String> {
    if slots_needed(spec) > SLOTS {
        return Err(format!("spec needs {} slots", slots_needed(spec)));
    }
    runner::clear_registry();
    INVOCATIONS.lock().unwrap().clear();
    for e in ARG_EVALS.lock().unwrap().iter_mut() {
        *e = 0;
    }
    let mut table = TABLE.write().unwrap();
    for s in table.iter_mut() {
        *s = Slot::default();
    }
    let mut next = 0usize;
    for item in &spec.items {
        match item {
            Item::Group(m) => {
                let slot = next;
                next += 1;
                table[slot].options = m.options.clone();
                let entry: &'static GroupEntry = Box::leak(Box::new(GroupEntry { meta: meta_of(m, slot), generic_benches: None }));
                let node: &'static EntryList<GroupEntry> = Box::leak(Box::new(EntryList::new(entry)));
                GROUP_ENTRIES.push(node);
            }
            Item::Bench(b) if !b.is_generic() => {
                let slot = next;
                next += 1;
                table[slot].uid = b.uid;
                table[slot].body = Some(b.body);
                table[slot].options = b.meta.options.clone();
                let bench = match &b.args {
                    None => BenchEntryRunner::Plain(PLAIN[slot]),
                    Some(args) => {
                        table[slot].args = Some(args.values());
                        table[slot].bench_args = Some(Box::leak(Box::new(BenchArgs::new())));
                        ARGS[slot]()
                    }
                };
                let entry: &'static BenchEntry = Box::leak(Box::new(BenchEntry { meta: meta_of(&b.meta, slot), bench }));
                let node: &'static EntryList<BenchEntry> = Box::leak(Box::new(EntryList::new(entry)));
                BENCH_ENTRIES.push(node);
            }
            Item::Bench(b) => {
                // Generic: a GroupEntry whose `generic_benches` is a two-dimensional
                // slice: outer = types, inner = consts.
                let group_slot = next;
                next += 1;
                table[group_slot].options = b.meta.options.clone();
                let group: &'static mut GroupEntry = Box::leak(Box::new(GroupEntry { meta: meta_of(&b.meta, group_slot), generic_benches: None }));
                let group_ptr: *mut GroupEntry = group;
                let group_ref: &'static GroupEntry = unsafe { &*group_ptr };
                let shared_args: Option<&'static BenchArgs> = b.args.as_ref().map(|_| &*Box::leak(Box::new(BenchArgs::new())));
                let type_list: Vec<Option<u8>> = match &b.types {
                    Some(t) => t.iter().map(|&x| Some(x)).collect(),
                    None => vec![None],
                };
                let const_names: Vec<Option<usize>> = match &b.consts {
                    Some(c) => (0..c.len()).map(Some).collect(),
                    None => vec![None],
                };
                let mut per_type: Vec<Vec<GenericBenchEntry>> = Vec::new();
                for ty in &type_list {
                    let mut inner: Vec<GenericBenchEntry> = Vec::new();
                    for ci in &const_names {
                        let slot = next;
                        next += 1;
                        table[slot].uid = b.uid;
                        table[slot].body = Some(b.body);
                        table[slot].type_label = ty.map(|t| type_display(t).to_string());
                        table[slot].const_label = ci.map(|i| b.consts.as_ref().unwrap().names()[i].clone());
                        let bench = match &b.args {
                            None => BenchEntryRunner::Plain(PLAIN[slot]),
                            Some(args) => {
                                table[slot].args = Some(args.values());
                                // All instantiations share one `BenchArgs`.
                                table[slot].bench_args = shared_args;
                                ARGS[slot]()
                            }
                        };
                        let const_value = ci.map(|i| match b.consts.as_ref().unwrap() {
                            ConstList::Usize(v) => EntryConst::new::<usize>(Box::leak(Box::new(v[i]))),
                            ConstList::I32(v) => EntryConst::new::<i32>(Box::leak(Box::new(v[i]))),
                            ConstList::Char(v) => EntryConst::new::<char>(Box::leak(Box::new(v[i]))),
                            ConstList::Bool(v) => EntryConst::new::<bool>(Box::leak(Box::new(v[i]))),
                        });
                        inner.push(GenericBenchEntry { group: group_ref, bench, ty: ty.map(entry_type), const_value });
                    }
                    per_type.push(inner);
                }
                // The macro emits `&[&[e(T1), e(T2), ...]]` for types only and one
                // inner array per type when there are consts.
                let outer: Vec<Vec<GenericBenchEntry>> = if b.consts.is_none() { vec![per_type.into_iter().flatten().collect()] } else { per_type };
                let outer: Vec<&'static [GenericBenchEntry]> = outer.into_iter().map(|v| &*Box::leak(v.into_boxed_slice())).collect();
                let outer: &'static [&'static [GenericBenchEntry]] = Box::leak(outer.into_boxed_slice());
                // `types = []` or `consts = []` registers nothing at all.
                let empty = b.types.as_ref().map(|t| t.is_empty()).unwrap_or(false) || b.consts.as_ref().map(|c| c.len() == 0).unwrap_or(false);
                if !empty {
                    unsafe { (*group_ptr).generic_benches = Some(outer) };
                    let node: &'static EntryList<GroupEntry> = Box::leak(Box::new(EntryList::new(group_ref)));
                    GROUP_ENTRIES.push(node);
                }
            }
        }
    }
    Ok(())
}

// ---------------------------------------------------------------------------
// Running

/// Options set on the runner (builder calls / CLI flags / environment).
#[derive(Clone, Debug, Default, PartialEq, Serialize, Deserialize)]
pub struct RunCfg {
    /// "bench", "test", "list", "list-terse", or "list-api" (`Divan::list_benches`).
    pub action: String,
    pub options: OptSpec,
    /// `(inclusive, exact, pattern)` in insertion order.
    pub filters: Vec<(bool, bool, String)>,
    /// 0 kind, 1 name, 2 location.
    pub sort: u8,
    pub reverse: bool,
    /// 0 no flag, 1 `--ignored`, 2 `--include-ignored`.
    pub ignored: u8,
    pub binary_bytes: bool,
}

#[derive(Clone, Debug, Default)]
pub struct TwinRun {
    pub stdout: String,
    pub invocations: Vec<Invocation>,
    pub arg_evals: Vec<u32>,
    pub panic: Option<String>,
}

thread_local! {
    /// (epoch, clock value, end readings taken in this epoch)
    static TWIN_CLOCK: Cell<(u64, u64, u64)> = const { Cell::new((0, 0, 0)) };
}

/// Bumped at the start of every benchmark body, so that every thread starts
/// each benchmark with sample number 0.
static EPOCH: AtomicU64 = AtomicU64::new(1);

/// Duration in ticks (= ns) of the k-th timed section a thread takes within
/// one benchmark.
pub fn twin_sample_ticks(k: u64) -> u64 {
    100 + 10 * (k % 3)
}

/// Picoseconds of the k-th sample of every thread.
pub fn twin_sample_ps(k: u64) -> u128 {
    twin_sample_ticks(k) as u128 * 1000
}

fn twin_reader(is_end: bool) -> u64 {
    let epoch = EPOCH.load(SeqCst);
    TWIN_CLOCK.with(|c| {
        let (e, mut v, mut k) = c.get();
        if e != epoch {
            k = 0;
        }
        if is_end {
            v += twin_sample_ticks(k);
            k += 1;
        } else {
            v += 50;
        }
        c.set((epoch, v, k));
        v
    })
}

pub const TWIN_FREQUENCY: u64 = 1_000_000_000;

pub fn install_clock() {
    clock::set_reader(Some(twin_reader));
    clock::set_frequency(TWIN_FREQUENCY);
    clock::set_precision(Some(500));
    clock::set_overheads(Some([0; 4]));
}

pub fn uninstall_clock() {
    clock::set_reader(None);
    clock::set_frequency(0);
    clock::set_precision(None);
    clock::set_overheads(None);
}

/// Applies `o` through the public builder methods.
pub fn apply_builder(mut d: Divan, o: &OptSpec) -> Divan {
    if let Some(v) = o.sample_count {
        d = d.sample_count(v);
    }
    if let Some(v) = o.sample_size {
        d = d.sample_size(v);
    }
    if let Some(v) = &o.threads {
        d = d.threads(v.iter().copied());
    }
    if let Some(v) = o.counters[0] {
        d = d.bytes_count(v);
    }
    if let Some(v) = o.counters[1] {
        d = d.chars_count(v);
    }
    if let Some(v) = o.counters[2] {
        d = d.cycles_count(v);
    }
    if let Some(v) = o.counters[3] {
        d = d.items_count(v);
    }
    if let Some(v) = o.min_time_ns {
        d = d.min_time(Duration::from_nanos(v));
    }
    if let Some(v) = o.max_time_ns {
        d = d.max_time(Duration::from_nanos(v));
    }
    if let Some(v) = o.skip_ext_time {
        d = d.skip_ext_time(v);
    }
    d
}

pub fn build_divan(cfg: &RunCfg) -> Result<Divan, String> {
    let mut d = apply_builder(Divan::default(), &cfg.options);
    match cfg.ignored {
        1 => d = d.run_only_ignored(),
        2 => d = d.run_ignored(),
        _ => {}
    }
    if cfg.binary_bytes {
        d = d.bytes_format(divan::counter::BytesFormat::Binary);
    }
    d = d.color(false);
    // Skip filters have builder methods; positive filters, sort and the list
    // actions are only reachable through the CLI, hence the hook.
    let mut hook_filters = Vec::new();
    for (inclusive, exact, pattern) in &cfg.filters {
        if *inclusive {
            hook_filters.push((true, *exact, pattern.clone()));
        } else if *exact {
            d = d.skip_exact(pattern.clone());
        } else {
            match regex_lite_ok(pattern) {
                true => d = d.skip_regex(pattern.as_str()),
                false => return Err(format!("bad regex {pattern:?}")),
            }
        }
    }
    let action = match cfg.action.as_str() {
        "bench" => Some(VAction::Bench),
        "test" => Some(VAction::Test),
        "list" => Some(VAction::List),
        "list-terse" => Some(VAction::ListTerse),
        // `Divan::run_benches()` on a runner configured for another action.
        "bench-api" => Some(VAction::Test),
        // "test-api" / "list-api": the configured action stays the default (bench).
        _ => None,
    };
    runner::configure(d, &RunnerCfg { action, timer_tsc: true, sorting_attr: cfg.sort, reverse_sort: cfg.reverse, filters: hook_filters })
}

pub fn regex_lite_ok(pattern: &str) -> bool {
    divan::__verif::pure::filter_is_match(&[(true, false, pattern.to_string())], &[]).is_ok()
}

/// Registers the spec and runs the configured action in this process.
pub fn run_in_process(spec: &TwinSpec, cfg: &RunCfg) -> Result<TwinRun, String> {
    register(spec)?;
    let divan = build_divan(cfg)?;
    install_clock();
    let (result, stdout) = capture::stdout(|| match cfg.action.as_str() {
        "list-api" => divan.list_benches(),
        "bench-api" => divan.run_benches(),
        "test-api" => divan.test_benches(),
        _ => divan.main(),
    });
    uninstall_clock();
    runner::clear_registry();
    let invocations = std::mem::take(&mut *INVOCATIONS.lock().unwrap());
    let arg_evals = ARG_EVALS.lock().unwrap().clone();
    Ok(TwinRun { stdout, invocations, arg_evals, panic: result.err() })
}

// ---------------------------------------------------------------------------
// Child process mode (real argv / environment through `divan::main()`)

#[derive(Serialize, Deserialize)]
struct ChildReport {
    invocations: Vec<Invocation>,
    arg_evals: Vec<u32>,
}

pub fn child_main(path: &str) {
    crate::engine::install_panic_hook();
    crate::engine::set_quiet_panics(false);
    let spec: TwinSpec = serde_json::from_slice(&std::fs::read(path).expect("read spec")).expect("parse spec");
    register(&spec).expect("register");
    install_clock();
    // `VCHECK_TWIN_BUILDER`: options set through builder calls *before*
    // `config_with_args()` reads the command line and the environment.
    let builder: Option<OptSpec> = std::env::var("VCHECK_TWIN_BUILDER").ok().and_then(|t| serde_json::from_str(&t).ok());
    // `VCHECK_TWIN_BUILDER_SKIPS`: `[(exact, pattern)]` passed to
    // `skip_exact` / `skip_regex`, also before `config_with_args()`.
    let skips: Option<Vec<(bool, String)>> = std::env::var("VCHECK_TWIN_BUILDER_SKIPS").ok().and_then(|t| serde_json::from_str(&t).ok());
    let result = if builder.is_some() || skips.is_some() {
        catch(move || {
            let mut d = apply_builder(Divan::default(), &builder.unwrap_or_default());
            for (exact, pattern) in skips.unwrap_or_default() {
                d = if exact { d.skip_exact(pattern) } else { d.skip_regex(pattern.as_str()) };
            }
            d.config_with_args().main()
        })
    } else {
        catch(divan::main)
    };
    let report = ChildReport { invocations: std::mem::take(&mut *INVOCATIONS.lock().unwrap()), arg_evals: ARG_EVALS.lock().unwrap().clone() };
    if let Ok(out) = std::env::var("VCHECK_TWIN_LOG") {
        std::fs::write(out, serde_json::to_vec(&report).unwrap()).expect("write child report");
    }
    use std::io::Write;
    let _ = std::io::stdout().flush();
    std::process::exit(if result.is_ok() { 0 } else { 101 });
}

/// Runs the spec in a child process with real command-line arguments and
/// environment variables.
pub fn run_child(spec: &TwinSpec, args: &[String], env: &[(String, String)], tag: &str) -> Result<(TwinRun, i32, String), String> {
    if CLI_IN_PROCESS.with(|c| c.get()) {
        return run_cli_in_process(spec, args, env);
    }
    let dir = std::path::Path::new(crate::engine::VERIF_DIR).join("target").join("twin");
    std::fs::create_dir_all(&dir).map_err(|e| e.to_string())?;
    let spec_path = dir.join(format!("{tag}.spec.json"));
    let log_path = dir.join(format!("{tag}.log.json"));
    std::fs::write(&spec_path, serde_json::to_vec(spec).unwrap()).map_err(|e| e.to_string())?;
    let _ = std::fs::remove_file(&log_path);
    let exe = std::env::current_exe().map_err(|e| e.to_string())?;
    let mut cmd = std::process::Command::new(exe);
    cmd.args(args);
    // A clean environment: only what the case sets.
    cmd.env_clear();
    cmd.env("VCHECK_TWIN_CHILD", &spec_path).env("VCHECK_TWIN_LOG", &log_path);
    for (k, v) in env {
        cmd.env(k, v);
    }
    let out = cmd.stdin(std::process::Stdio::null()).output().map_err(|e| e.to_string())?;
    let report: Option<ChildReport> = std::fs::read(&log_path).ok().and_then(|b| serde_json::from_slice(&b).ok());
    let _ = std::fs::remove_file(&spec_path);
    let _ = std::fs::remove_file(&log_path);
    let code = out.status.code().unwrap_or(-1);
    let stderr = String::from_utf8_lossy(&out.stderr).to_string();
    let (invocations, arg_evals) = match report {
        Some(r) => (r.invocations, r.arg_evals),
        None => (Vec::new(), Vec::new()),
    };
    Ok((TwinRun { stdout: String::from_utf8_lossy(&out.stdout).to_string(), invocations, arg_evals, panic: if code == 101 { Some(stderr.clone()) } else { None } }, code, stderr))
}

// ---------------------------------------------------------------------------
// The same command-line route without a child process: `config_with_args()`
// parses the case's argument list (hook `__verif::cli::set_args`) with the real
// `clap` command, the case's environment variables are set in this process for
// the duration of the run. Exit codes mirror the child's: 0, 2 (command line
// rejected), 101 (panic).

thread_local! {
    static CLI_IN_PROCESS: std::cell::Cell<bool> = const { std::cell::Cell::new(false) };
}

/// Runs `f` with [`run_child`] routed through this process.
pub fn with_cli_in_process<R>(f: impl FnOnce() -> R) -> R {
    struct Reset(bool);
    impl Drop for Reset {
        fn drop(&mut self) {
            CLI_IN_PROCESS.with(|c| c.set(self.0));
        }
    }
    let _reset = Reset(CLI_IN_PROCESS.with(|c| c.replace(true)));
    f()
}

fn divan_env_names() -> Vec<String> {
    std::env::vars_os().filter_map(|(k, _)| k.into_string().ok()).filter(|k| k.starts_with("DIVAN_") || k == "NEXTEST").collect()
}

pub fn run_cli_in_process(spec: &TwinSpec, args: &[String], env: &[(String, String)]) -> Result<(TwinRun, i32, String), String> {
    register(spec)?;
    install_clock();
    // The child starts from an empty environment.
    let saved: Vec<(String, Option<std::ffi::OsString>)> = divan_env_names().into_iter().map(|k| (k.clone(), std::env::var_os(&k))).collect();
    for (k, _) in &saved {
        std::env::remove_var(k);
    }
    let mut builder: Option<OptSpec> = None;
    let mut skips: Option<Vec<(bool, String)>> = None;
    for (k, v) in env {
        match k.as_str() {
            "VCHECK_TWIN_BUILDER" => builder = serde_json::from_str(v).ok(),
            "VCHECK_TWIN_BUILDER_SKIPS" => skips = serde_json::from_str(v).ok(),
            _ => std::env::set_var(k, v),
        }
    }
    let mut argv = vec!["vcheck".to_string()];
    argv.extend(args.iter().cloned());
    divan::__verif::cli::set_args(Some(argv));
    let (result, stdout) = capture::stdout(move || {
        if builder.is_some() || skips.is_some() {
            let mut d = apply_builder(Divan::default(), &builder.unwrap_or_default());
            for (exact, pattern) in skips.unwrap_or_default() {
                d = if exact { d.skip_exact(pattern) } else { d.skip_regex(pattern.as_str()) };
            }
            d.config_with_args().main()
        } else {
            divan::main()
        }
    });
    divan::__verif::cli::set_args(None);
    for (k, _) in env {
        if !k.starts_with("VCHECK_TWIN_") {
            std::env::remove_var(k);
        }
    }
    for (k, v) in saved {
        if let Some(v) = v {
            std::env::set_var(k, v);
        }
    }
    uninstall_clock();
    runner::clear_registry();
    let invocations = std::mem::take(&mut *INVOCATIONS.lock().unwrap());
    let arg_evals = ARG_EVALS.lock().unwrap().clone();
    let (code, stderr, panic) = match result {
        Ok(()) => (0, String::new(), None),
        Err(msg) if msg.contains(divan::__verif::cli::REJECTED) => (2, msg, None),
        Err(msg) => (101, msg.clone(), Some(msg)),
    };
    Ok((TwinRun { stdout, invocations, arg_evals, panic }, code, stderr))
}
