//! In-process twin of generated bench crates (filled in later).

pub fn child_main(_path: &str) {
    eprintln!("twin child mode not built yet");
    std::process::exit(2);
}
