//! Reference model for twin specs, written from the property statements
//! (C12–C17, C20): which cases exist and under which display path, which are
//! selected by a filter set, the effective options of each, the documented
//! sort orders, and the shape of the printed tree.

use std::cmp::Ordering;

use regex::Regex;

use super::twin::*;

#[derive(Clone, Debug)]
pub enum RKind {
    Parent { children: Vec<RNode> },
    Leaf {
        uid: u32,
        type_label: Option<String>,
        const_label: Option<String>,
        /// Position among the generic instantiations of its function
        /// (declaration order within one `types` / `consts` list).
        generic_pos: Option<usize>,
        const_value: Option<ConstVal>,
        /// `(name, index in the declared list)`.
        args: Option<Vec<(String, usize)>>,
    },
}

#[derive(Clone, Debug, PartialEq)]
pub enum ConstVal {
    Usize(usize),
    I32(i32),
    Char(char),
    Bool(bool),
}

#[derive(Clone, Debug)]
pub struct RNode {
    /// Raw path component (module identifier, function identifier, type or const label).
    pub raw: String,
    pub display: String,
    /// Location of the entry/group this node stands for, if it has one.
    pub loc: Option<Loc>,
    /// Options set at this level (group attribute or benchmark attribute).
    pub options: Option<OptSpec>,
    pub kind: RKind,
}

impl RNode {
    pub fn is_leaf(&self) -> bool {
        matches!(self.kind, RKind::Leaf { .. })
    }

    pub fn children(&self) -> &[RNode] {
        match &self.kind {
            RKind::Parent { children } => children,
            _ => &[],
        }
    }

    fn children_mut(&mut self) -> &mut Vec<RNode> {
        match &mut self.kind {
            RKind::Parent { children } => children,
            _ => unreachable!(),
        }
    }

    /// The location used for `--sort location`: own, else the earliest below.
    pub fn sort_loc(&self) -> Option<Loc> {
        if let Some(l) = &self.loc {
            return Some(l.clone());
        }
        self.children().iter().filter_map(|c| c.sort_loc()).min_by(|a, b| loc_cmp(a, b))
    }
}

pub fn loc_cmp(a: &Loc, b: &Loc) -> Ordering {
    (a.file.as_str(), a.line, a.col).cmp(&(b.file.as_str(), b.line, b.col))
}

fn strip_raw(s: &str) -> String {
    s.strip_prefix("r#").unwrap_or(s).to_string()
}

fn find_parent<'a>(nodes: &'a mut Vec<RNode>, raw: &str) -> Option<&'a mut RNode> {
    nodes.iter_mut().find(|n| !n.is_leaf() && n.raw == raw)
}

fn descend<'a>(nodes: &'a mut Vec<RNode>, path: &[String]) -> &'a mut Vec<RNode> {
    let mut cur = nodes;
    for comp in path {
        if find_parent(cur, comp).is_none() {
            cur.push(RNode { raw: comp.clone(), display: strip_raw(comp), loc: None, options: None, kind: RKind::Parent { children: Vec::new() } });
        }
        cur = find_parent(cur, comp).unwrap().children_mut();
    }
    cur
}

fn const_val(c: &ConstList, i: usize) -> ConstVal {
    match c {
        ConstList::Usize(v) => ConstVal::Usize(v[i]),
        ConstList::I32(v) => ConstVal::I32(v[i]),
        ConstList::Char(v) => ConstVal::Char(v[i]),
        ConstList::Bool(v) => ConstVal::Bool(v[i]),
    }
}

/// The tree of everything that must be registered.
pub fn build(spec: &TwinSpec) -> Vec<RNode> {
    let mut roots: Vec<RNode> = Vec::new();
    // Benchmarks first (modules exist because benchmarks live in them).
    for item in &spec.items {
        let Item::Bench(b) = item else { continue };
        let args = b.args.as_ref().map(|a| a.names().into_iter().enumerate().map(|(i, n)| (n, i)).collect::<Vec<_>>());
        // An empty `args` list yields no case: nothing is shown, run or sorted.
        if args.as_ref().map(|a| a.is_empty()).unwrap_or(false) {
            continue;
        }
        if !b.is_generic() {
            let siblings = descend(&mut roots, &b.meta.module_path);
            siblings.push(RNode {
                raw: b.meta.raw_name.clone(),
                display: b.meta.display_name(),
                loc: Some(b.meta.loc.clone()),
                options: b.meta.options.clone(),
                kind: RKind::Leaf { uid: b.uid, type_label: None, const_label: None, generic_pos: None, const_value: None, args },
            });
            continue;
        }
        let types: Vec<Option<u8>> = match &b.types {
            Some(t) => t.iter().map(|&x| Some(x)).collect(),
            None => vec![None],
        };
        let consts: Vec<Option<usize>> = match &b.consts {
            Some(c) => (0..c.len()).map(Some).collect(),
            None => vec![None],
        };
        if types.is_empty() || consts.is_empty() {
            // Empty lists register nothing.
            continue;
        }
        // The function becomes a group node named after it.
        let mut path = b.meta.module_path.clone();
        path.push(b.meta.raw_name.clone());
        {
            let parent_list = descend(&mut roots, &b.meta.module_path);
            if find_parent(parent_list, &b.meta.raw_name).is_none() {
                parent_list.push(RNode { raw: b.meta.raw_name.clone(), display: b.meta.display_name(), loc: None, options: None, kind: RKind::Parent { children: Vec::new() } });
            }
            let node = find_parent(parent_list, &b.meta.raw_name).unwrap();
            node.display = b.meta.display_name();
            node.loc = Some(b.meta.loc.clone());
            node.options = b.meta.options.clone();
        }
        for (ti, ty) in types.iter().enumerate() {
            for (ci, c) in consts.iter().enumerate() {
                let type_label = ty.map(|t| type_display(t).to_string());
                let const_label = c.map(|i| b.consts.as_ref().unwrap().names()[i].clone());
                let mut p = path.clone();
                let (raw, generic_pos) = match (&type_label, &const_label) {
                    (Some(t), Some(cl)) => {
                        // Types are the parents of the const values.
                        p.push(t.clone());
                        (cl.clone(), ci)
                    }
                    (None, Some(cl)) => (cl.clone(), ci),
                    (Some(t), None) => (t.clone(), ti),
                    (None, None) => unreachable!(),
                };
                let siblings = descend(&mut roots, &p);
                siblings.push(RNode {
                    raw: raw.clone(),
                    display: raw,
                    loc: Some(b.meta.loc.clone()),
                    options: b.meta.options.clone(),
                    kind: RKind::Leaf {
                        uid: b.uid,
                        type_label,
                        const_label,
                        generic_pos: Some(generic_pos),
                        const_value: c.map(|i| const_val(b.consts.as_ref().unwrap(), i)),
                        args: args.clone(),
                    },
                });
            }
        }
    }
    // Groups contribute name and options to an existing module node.
    fn attach(nodes: &mut Vec<RNode>, path: &[String], m: &Meta) {
        match path.split_first() {
            Some((comp, rest)) => {
                if let Some(n) = find_parent(nodes, comp) {
                    attach(n.children_mut(), rest, m);
                }
            }
            None => {
                if let Some(node) = find_parent(nodes, &m.raw_name) {
                    node.display = m.display_name();
                    node.loc = Some(m.loc.clone());
                    node.options = m.options.clone();
                }
            }
        }
    }
    for item in &spec.items {
        let Item::Group(m) = item else { continue };
        attach(&mut roots, &m.module_path, m);
    }
    roots
}

/// A runnable case with everything the properties say about it.
#[derive(Clone, Debug)]
pub struct RCase {
    /// Display path components.
    pub path: Vec<String>,
    pub uid: u32,
    pub type_label: Option<String>,
    pub const_label: Option<String>,
    pub arg: Option<String>,
    pub arg_index: Option<usize>,
    /// Options from the benchmark attribute, then innermost .. outermost group.
    pub levels: Vec<OptSpec>,
}

impl RCase {
    pub fn path_str(&self) -> String {
        self.path.join("::")
    }

    /// Per-field precedence: runner, benchmark, innermost group .. outermost.
    pub fn effective(&self, runner: &OptSpec) -> OptSpec {
        let mut out = runner.clone();
        for level in &self.levels {
            out.sample_count = out.sample_count.or(level.sample_count);
            out.sample_size = out.sample_size.or(level.sample_size);
            out.threads = out.threads.clone().or(level.threads.clone());
            for k in 0..4 {
                out.counters[k] = out.counters[k].or(level.counters[k]);
            }
            out.min_time_ns = out.min_time_ns.or(level.min_time_ns);
            out.max_time_ns = out.max_time_ns.or(level.max_time_ns);
            out.skip_ext_time = out.skip_ext_time.or(level.skip_ext_time);
            out.ignore = out.ignore.or(level.ignore);
        }
        out
    }

    pub fn ignored(&self) -> bool {
        self.effective(&OptSpec::default()).ignore.unwrap_or(false)
    }
}

pub fn available_parallelism() -> usize {
    std::thread::available_parallelism().map(|n| n.get()).unwrap_or(1)
}

/// Thread counts a benchmark runs with: 0 = available parallelism, sorted,
/// duplicates collapsed, default `[1]`.
pub fn thread_counts(threads: &Option<Vec<usize>>) -> Vec<usize> {
    let mut v: Vec<usize> = threads.clone().unwrap_or_default().into_iter().map(|n| if n == 0 { available_parallelism() } else { n }).collect();
    v.sort_unstable();
    v.dedup();
    if v.is_empty() {
        v.push(1);
    }
    v
}

pub fn cases(roots: &[RNode]) -> Vec<RCase> {
    fn walk(node: &RNode, path: &mut Vec<String>, group_levels: &mut Vec<OptSpec>, out: &mut Vec<RCase>) {
        path.push(node.display.clone());
        match &node.kind {
            RKind::Parent { children } => {
                let pushed = node.options.is_some();
                if let Some(o) = &node.options {
                    group_levels.push(o.clone());
                }
                for c in children {
                    walk(c, path, group_levels, out);
                }
                if pushed {
                    group_levels.pop();
                }
            }
            RKind::Leaf { uid, type_label, const_label, args, .. } => {
                let mut levels = Vec::new();
                if let Some(o) = &node.options {
                    levels.push(o.clone());
                }
                levels.extend(group_levels.iter().rev().cloned());
                let base = RCase { path: path.clone(), uid: *uid, type_label: type_label.clone(), const_label: const_label.clone(), arg: None, arg_index: None, levels };
                match args {
                    None => out.push(base),
                    Some(list) => {
                        for (name, index) in list {
                            let mut c = base.clone();
                            c.path.push(name.clone());
                            c.arg = Some(name.clone());
                            c.arg_index = Some(*index);
                            out.push(c);
                        }
                    }
                }
            }
        }
        path.pop();
    }
    let mut out = Vec::new();
    for r in roots {
        walk(r, &mut Vec::new(), &mut Vec::new(), &mut out);
    }
    out
}

// ---------------------------------------------------------------------------
// Filters

pub struct RefFilters {
    filters: Vec<(bool, bool, String, Option<Regex>)>,
}

impl RefFilters {
    pub fn new(specs: &[(bool, bool, String)]) -> Option<Self> {
        let mut filters = Vec::new();
        for (inclusive, exact, pattern) in specs {
            let re = if *exact { None } else { Some(Regex::new(pattern).ok()?) };
            filters.push((*inclusive, *exact, pattern.clone(), re));
        }
        Some(RefFilters { filters })
    }

    fn matches(f: &(bool, bool, String, Option<Regex>), path: &str) -> bool {
        match &f.3 {
            None => f.2 == path,
            Some(re) => re.is_match(path),
        }
    }

    /// Selected iff no skip filter matches and (no positive filter, or some
    /// positive filter matches).
    pub fn selects(&self, path: &str) -> bool {
        if self.filters.iter().any(|f| !f.0 && Self::matches(f, path)) {
            return false;
        }
        let mut positives = self.filters.iter().filter(|f| f.0).peekable();
        if positives.peek().is_none() {
            return true;
        }
        positives.any(|f| Self::matches(f, path))
    }
}

// ---------------------------------------------------------------------------
// Orders

/// Natural order: digit runs compare by numeric value, everything else by bytes.
pub fn natural_cmp_ref(a: &str, b: &str) -> Ordering {
    fn tokens(s: &str) -> Vec<(bool, &str)> {
        let bytes = s.as_bytes();
        let mut out = Vec::new();
        let mut i = 0;
        while i < bytes.len() {
            let is_digit = bytes[i].is_ascii_digit();
            let mut j = i + 1;
            while j < bytes.len() && bytes[j].is_ascii_digit() == is_digit {
                j += 1;
            }
            out.push((is_digit, &s[i..j]));
            i = j;
        }
        out
    }
    let (ta, tb) = (tokens(a), tokens(b));
    for (x, y) in ta.iter().zip(tb.iter()) {
        let ord = if x.0 && y.0 {
            // Numeric value of arbitrarily long digit runs.
            let xs = x.1.trim_start_matches('0');
            let ys = y.1.trim_start_matches('0');
            xs.len().cmp(&ys.len()).then_with(|| xs.cmp(ys))
        } else {
            x.1.cmp(y.1)
        };
        if ord != Ordering::Equal {
            return ord;
        }
    }
    ta.len().cmp(&tb.len())
}

/// Name order of two runtime-argument labels: numeric labels by value,
/// otherwise natural order.
pub fn arg_name_cmp_ref(a: &str, b: &str) -> Ordering {
    if let (Ok(x), Ok(y)) = (a.parse::<i128>(), b.parse::<i128>()) {
        return x.cmp(&y);
    }
    // Huge unsigned values.
    if let (Ok(x), Ok(y)) = (a.parse::<u128>(), b.parse::<u128>()) {
        return x.cmp(&y);
    }
    if let (Ok(x), Ok(y)) = (a.parse::<f64>(), b.parse::<f64>()) {
        if let Some(o) = x.partial_cmp(&y) {
            if o != Ordering::Equal {
                return o;
            }
        }
    }
    natural_cmp_ref(a, b)
}

fn const_cmp(a: &ConstVal, b: &ConstVal) -> Option<Ordering> {
    match (a, b) {
        (ConstVal::Usize(x), ConstVal::Usize(y)) => Some(x.cmp(y)),
        (ConstVal::I32(x), ConstVal::I32(y)) => Some(x.cmp(y)),
        (ConstVal::Char(x), ConstVal::Char(y)) => Some(x.cmp(y)),
        (ConstVal::Bool(x), ConstVal::Bool(y)) => Some(x.cmp(y)),
        _ => None,
    }
}

/// The documented order of two sibling nodes under `attr` (0 kind, 1 name,
/// 2 location) with the other two attributes as tie-breakers. `None` means the
/// statement leaves the pair's order open (all keys tie).
pub fn sibling_cmp_ref(a: &RNode, b: &RNode, attr: u8) -> Ordering {
    let order: [u8; 3] = match attr {
        0 => [0, 1, 2],
        1 => [1, 2, 0],
        _ => [2, 0, 1],
    };
    for key in order {
        let ord = match key {
            0 => (!a.is_leaf()).cmp(&!b.is_leaf()),
            1 => {
                let by_const = match (&a.kind, &b.kind) {
                    (RKind::Leaf { const_value: Some(x), .. }, RKind::Leaf { const_value: Some(y), .. }) => const_cmp(x, y).filter(|o| *o != Ordering::Equal),
                    _ => None,
                };
                match (by_const, &a.kind, &b.kind) {
                    (Some(o), _, _) => o,
                    (None, RKind::Leaf { const_value: Some(_), .. }, RKind::Leaf { const_value: Some(_), .. }) => natural_cmp_ref(&a.display, &b.display),
                    _ => natural_cmp_ref(&a.display, &b.display),
                }
            }
            _ => {
                let (la, lb) = (a.sort_loc(), b.sort_loc());
                let ord = match (&la, &lb) {
                    (Some(x), Some(y)) => loc_cmp(x, y),
                    (None, None) => Ordering::Equal,
                    // A node without any location sorts first (`None < Some`).
                    (None, Some(_)) => Ordering::Less,
                    (Some(_), None) => Ordering::Greater,
                };
                if ord == Ordering::Equal {
                    // Generic instantiations of one benchmark keep declaration order.
                    match (&a.kind, &b.kind) {
                        (RKind::Leaf { uid: ua, generic_pos: Some(pa), .. }, RKind::Leaf { uid: ub, generic_pos: Some(pb), .. }) if ua == ub => pa.cmp(pb),
                        // Two *different* entries at the very same file:line:col
                        // (only possible for macro-generated items): the
                        // statement gives them no relative position; any order
                        // is accepted (see DESIGN.md section 10).
                        _ if a.loc.is_some() && b.loc.is_some() => return Ordering::Equal,
                        _ => Ordering::Equal,
                    }
                } else {
                    ord
                }
            }
        };
        if ord != Ordering::Equal {
            return ord;
        }
    }
    Ordering::Equal
}

/// The documented order of two argument labels of one benchmark.
pub fn arg_cmp_ref(a: &(String, usize), b: &(String, usize), attr: u8) -> Ordering {
    let order: [u8; 3] = match attr {
        0 => [0, 1, 2],
        1 => [1, 2, 0],
        _ => [2, 0, 1],
    };
    for key in order {
        let ord = match key {
            0 => Ordering::Equal,
            1 => arg_name_cmp_ref(&a.0, &b.0),
            _ => a.1.cmp(&b.1),
        };
        if ord != Ordering::Equal {
            return ord;
        }
    }
    Ordering::Equal
}

// ---------------------------------------------------------------------------
// Parsing the printed tree

#[derive(Clone, Debug, PartialEq)]
pub struct PNode {
    pub name: String,
    /// Cells after the name on the node's own line (statistics, `(ignored)`,
    /// column headings), trimmed; empty if the line has no cells.
    pub cells: Vec<String>,
    /// Continuation rows that belong to this node: their cells, trimmed.
    pub extra_rows: Vec<Vec<String>>,
    pub children: Vec<PNode>,
}

impl PNode {
    /// All `(path, node)` pairs depth-first.
    pub fn walk<'a>(&'a self, path: &mut Vec<String>, out: &mut Vec<(Vec<String>, &'a PNode)>) {
        path.push(self.name.clone());
        out.push((path.clone(), self));
        for c in &self.children {
            c.walk(path, out);
        }
        path.pop();
    }
}

fn split_cells(rest: &str, has_columns: bool) -> (String, Vec<String>) {
    if !has_columns {
        let f = rest.trim_end();
        return match f.strip_suffix("(ignored)") {
            Some(n) if n.ends_with("  ") || n.is_empty() => (n.trim_end().to_string(), vec!["(ignored)".to_string()]),
            _ => (f.to_string(), Vec::new()),
        };
    }
    let mut parts = rest.split('│');
    let first = parts.next().unwrap_or("");
    let others: Vec<String> = parts.map(|c| c.trim().to_string()).collect();
    let f = first.trim_end();
    // name, then a run of >= 2 spaces, then the first cell (which has no
    // double space inside).
    let bytes = f.as_bytes();
    let mut cut = None;
    let mut i = bytes.len();
    while i >= 2 {
        if bytes[i - 1] == b' ' && bytes[i - 2] == b' ' {
            cut = Some(i);
            break;
        }
        i -= 1;
    }
    let (name, cell0) = match cut {
        Some(i) => (f[..i].trim_end().to_string(), f[i..].to_string()),
        None => (f.to_string(), String::new()),
    };
    if others.is_empty() && cell0.is_empty() {
        (name, Vec::new())
    } else {
        (name, std::iter::once(cell0).chain(others).collect())
    }
}

/// Strict parser for the printed tree. Every line must be
/// `prefix (├─ |╰─ ) name [pad cells]` (no prefix and glyph at the top level)
/// or a continuation row `prefix (│| ) pad cells` of the leaf above it, where
/// `prefix` is `│  ` under every ancestor that has later siblings and three
/// spaces under every other ancestor; `╰─` is used exactly for last children.
pub fn parse_tree(text: &str, has_columns: bool) -> Result<Vec<PNode>, String> {
    let lines: Vec<&str> = text.lines().filter(|l| !l.trim().is_empty()).collect();
    let mut pos = 0;
    let nodes = parse_level(&lines, &mut pos, "", 0, has_columns)?;
    if pos != lines.len() {
        return Err(format!("line {:?} does not fit the tree (wrong indentation or glyph)", lines[pos]));
    }
    Ok(nodes)
}

fn parse_level(lines: &[&str], pos: &mut usize, prefix: &str, depth: usize, has_columns: bool) -> Result<Vec<PNode>, String> {
    let mut out: Vec<PNode> = Vec::new();
    let mut saw_last = false;
    while *pos < lines.len() {
        let line = lines[*pos];
        let (is_last, rest): (bool, &str) = if depth == 0 {
            if line.starts_with(' ') || line.starts_with('│') || line.starts_with('├') || line.starts_with('╰') {
                break;
            }
            (false, line)
        } else {
            let Some(after) = line.strip_prefix(prefix) else { break };
            if let Some(r) = after.strip_prefix("├─ ") {
                (false, r)
            } else if let Some(r) = after.strip_prefix("╰─ ") {
                (true, r)
            } else {
                break;
            }
        };
        if saw_last {
            return Err(format!("a sibling follows the last-child glyph: {line:?}"));
        }
        let (name, cells) = split_cells(rest, has_columns);
        if name.is_empty() {
            return Err(format!("node line without a name: {line:?}"));
        }
        *pos += 1;
        let mut node = PNode { name, cells, extra_rows: Vec::new(), children: Vec::new() };
        let child_prefix: String = if depth == 0 { String::new() } else { format!("{prefix}{}", if is_last { "   " } else { "│  " }) };
        // Continuation rows of this node (only leaves have them): the current
        // prefix, then a bar iff the leaf is not last, then padding.
        if depth > 0 {
            let cont_prefix = format!("{prefix}{}", if is_last { " " } else { "│" });
            while *pos < lines.len() {
                let l = lines[*pos];
                let Some(after) = l.strip_prefix(cont_prefix.as_str()) else { break };
                // Not a child line and not a sibling line.
                let is_child = l.strip_prefix(child_prefix.as_str()).map(|a| a.starts_with("├─ ") || a.starts_with("╰─ ")).unwrap_or(false);
                if is_child || !after.starts_with("  ") {
                    break;
                }
                // A continuation row must be blank up to the cells.
                let (n, cells) = split_cells(after, has_columns);
                if !n.is_empty() {
                    // e.g. the row "max alloc:" has its text in the first cell;
                    // split_cells put it into `n` only if there was no double space.
                    if cells.is_empty() {
                        node.extra_rows.push(vec![n]);
                    } else {
                        return Err(format!("continuation row with text in the name column: {l:?}"));
                    }
                } else {
                    node.extra_rows.push(cells);
                }
                *pos += 1;
            }
        }
        node.children = parse_level(lines, pos, &child_prefix, depth + 1, has_columns)?;
        if !node.children.is_empty() && !node.extra_rows.is_empty() {
            return Err(format!("node {:?} has both continuation rows and children", node.name));
        }
        out.push(node);
        if depth > 0 && is_last {
            saw_last = true;
        }
    }
    if depth > 0 && !out.is_empty() && !saw_last {
        return Err(format!("the last child {:?} does not have the last-child glyph", out.last().unwrap().name));
    }
    Ok(out)
}
