//! C18 — printed durations, sizes and throughputs are truthful truncations.
//!
//! Oracle: a validity predicate on the *output string*. The string is parsed
//! into `NUM UNIT`; canonical-form rules are checked (no exponent, no trailing
//! zeros, at most max(0, 4-d) decimals, integer digits in full); then the exact
//! input value (a rational, in big-integer arithmetic, no division and no
//! floating point) must lie in the truncation interval the string claims,
//! `[NUM, NUM + 10^-k)` in `UNIT` with `k = max(0, 4-d)`, and `UNIT` must be
//! the largest unit not exceeding the value. For the float-based formatters the
//! value may be off by a relative 2^-50 ("up to double-precision rounding").

use divan::__verif::pure;
use proptest::prelude::*;
use serde::{Deserialize, Serialize};

use super::{u128_str, PropDef};
use crate::{
    big::{Big, Rat},
    engine::{catch, classify, Verdict},
    groups::Groups,
    util::{bitlen_u128, edge_u64},
    vensure,
};

pub const DEF: PropDef = PropDef {
    id: "C18",
    groups,
    rule: "durations: u128 picoseconds uniform by bit length plus a boundary generator (A*unit/10^k +- d for every unit, every 4-significant-digit A, |d| <= 2000 ps, and k*unit +- 1); sizes: non-negative f64 by bit pattern, integers, and A*unit/10^k +- n ulp for decimal and binary units, +inf; throughputs: (kind, count in u64, picos in u128) incl. zero count / zero duration and pairs hitting exact unit and digit boundaries. \
           Non-trivial = produced by a boundary generator, or the printed number has an inner 0 digit or fewer decimals than allowed (stripped zeros), or the value is zero/infinite. Distinct = distinct serialized case.",
    assumptions: &[
        "formatters reached through cfg(divan_verif) wrappers calling the production Display impls / functions unchanged",
        "float-based formatters (sizes, throughput) are allowed a relative error of 2^-50 (5 correctly rounded operations), as the property says 'up to double-precision rounding'",
        "only the default precision (4 significant figures) and no width, as the table uses; other widths/precisions (<= 6 / <= 24) are judged for panics and padding only",
    ],
    journal: false,
    timeout_s: (120, 1800),
    nshards: None,
};

struct Parsed {
    /// Value claimed: [a, a+1) / 10^k in unit.
    a: Big,
    k: u32,
    unit: String,
    stripped_or_inner_zero: bool,
}

fn parse_canonical(out: &str) -> Result<Parsed, (String, String)> {
    let err = |sig: &str, why: &str| Err((sig.to_string(), format!("{why}: {out:?}")));
    let Some((num, unit)) = out.split_once(' ') else { return err("format", "no space between number and unit") };
    if unit.is_empty() || unit.contains(' ') {
        return err("format", "bad unit part");
    }
    let (int, frac) = match num.split_once('.') {
        Some((i, f)) => (i, Some(f)),
        None => (num, None),
    };
    if int.is_empty() || !int.bytes().all(|b| b.is_ascii_digit()) {
        return err("format", "integer part is not plain digits (exponent / sign / nan?)");
    }
    if int.len() > 1 && int.starts_with('0') {
        return err("format", "leading zero");
    }
    let d = int.len() as u32;
    let k = 4u32.saturating_sub(d);
    let frac = match frac {
        None => "",
        Some(f) => {
            if f.is_empty() {
                return err("format", "bare decimal point");
            }
            if !f.bytes().all(|b| b.is_ascii_digit()) {
                return err("format", "fraction is not plain digits");
            }
            if f.ends_with('0') {
                return err("trailing-zero", "trailing zero in fraction");
            }
            if f.len() as u32 > k {
                return err("too-many-decimals", "more decimals than max(0, 4 - integer digits)");
            }
            f
        }
    };
    let mut digits = String::from(int);
    digits.push_str(frac);
    for _ in frac.len() as u32..k {
        digits.push('0');
    }
    let a = Big::from_decimal(&digits).unwrap();
    let kept: String = format!("{int}{frac}");
    let inner_zero = kept.len() > 1 && kept[1..].contains('0');
    Ok(Parsed { a, k, unit: unit.to_string(), stripped_or_inner_zero: (frac.len() as u32) < k || inner_zero })
}

/// `units`: ascending `(suffix, size in base units)`; the first one is also
/// used for values below its size.
fn judge(out: &str, value: &Rat, units: &[(&str, u128)], float_tolerance: bool, unit_tolerance: bool) -> Result<bool, (String, String)> {
    let p = parse_canonical(out)?;
    let Some(ui) = units.iter().position(|(s, _)| *s == p.unit) else {
        return Err(("unit-unknown".into(), format!("unknown unit in {out:?}")));
    };
    let one = Big::from_u64(1);
    // value * (1 +- 2^-50)
    let (hi, lo) = if float_tolerance {
        let scale = Big::from_u64(1).shl(50);
        (
            value.mul_int(&scale.add_u32(1)).div_int(&scale),
            value.mul_int(&Big::from_u64((1u64 << 50) - 1)).div_int(&scale),
        )
    } else {
        (value.clone(), value.clone())
    };
    let unit = Big::from_u128(units[ui].1);
    let p10 = Big::pow10(p.k);
    let lower = Rat::new(p.a.mul(&unit), p10.clone());
    let upper = Rat::new(p.a.add_u32(1).mul(&unit), p10);
    if !hi.ge(&lower) {
        return Err(("overstated".into(), format!("{out:?} is larger than the true value")));
    }
    if !lo.lt(&upper) {
        return Err(("understated".into(), format!("{out:?} drops more than truncation to max(0,4-d) decimals allows")));
    }
    // Unit choice (exact unless the value itself went through float arithmetic
    // before the unit was chosen).
    let (hi, lo) = if unit_tolerance { (hi, lo) } else { (value.clone(), value.clone()) };
    if ui > 0 && !hi.ge(&Rat::new(unit.clone(), one.clone())) {
        return Err(("unit-too-large".into(), format!("{out:?}: unit exceeds the value")));
    }
    if ui + 1 < units.len() && !lo.lt(&Rat::new(Big::from_u128(units[ui + 1].1), one)) {
        return Err(("unit-too-small".into(), format!("{out:?}: a larger unit does not exceed the value")));
    }
    Ok(p.stripped_or_inner_zero)
}

const DUR_UNITS: [(&str, u128); 7] = [
    ("ns", 1_000),
    ("µs", 1_000_000),
    ("ms", 1_000_000_000),
    ("s", 1_000_000_000_000),
    ("m", 60_000_000_000_000),
    ("h", 3_600_000_000_000_000),
    ("d", 86_400_000_000_000_000),
];

const fn pow_units(base: u128, names: [&'static str; 6]) -> [(&'static str, u128); 6] {
    [
        (names[0], 1),
        (names[1], base),
        (names[2], base * base),
        (names[3], base * base * base),
        (names[4], base * base * base * base),
        (names[5], base * base * base * base * base),
    ]
}

const BYTES_DEC: [(&str, u128); 6] = pow_units(1000, ["B", "KB", "MB", "GB", "TB", "PB"]);
const BYTES_BIN: [(&str, u128); 6] = pow_units(1024, ["B", "KiB", "MiB", "GiB", "TiB", "PiB"]);
const BPS_DEC: [(&str, u128); 6] = pow_units(1000, ["B/s", "KB/s", "MB/s", "GB/s", "TB/s", "PB/s"]);
const BPS_BIN: [(&str, u128); 6] = pow_units(1024, ["B/s", "KiB/s", "MiB/s", "GiB/s", "TiB/s", "PiB/s"]);
const CHARS: [(&str, u128); 6] = pow_units(1000, ["char/s", "Kchar/s", "Mchar/s", "Gchar/s", "Tchar/s", "Pchar/s"]);
const CYCLES: [(&str, u128); 6] = pow_units(1000, ["Hz", "KHz", "MHz", "GHz", "THz", "PHz"]);
const ITEMS: [(&str, u128); 6] = pow_units(1000, ["item/s", "Kitem/s", "Mitem/s", "Gitem/s", "Titem/s", "Pitem/s"]);

#[derive(Clone, Debug, Serialize, Deserialize)]
struct DurCase {
    #[serde(with = "u128_str")]
    picos: u128,
    boundary: bool,
}

fn check_duration(c: &DurCase) -> Verdict {
    let out = match catch(|| pure::fmt_duration(c.picos, None, None)) {
        Ok(o) => o,
        Err(e) => return Verdict::fail("duration-panic", format!("{} ps: panic {e}", c.picos)),
    };
    match judge(&out, &Rat::from_u128(c.picos), &DUR_UNITS, false, false) {
        Ok(interesting) => {
            if c.boundary {
                classify("boundary");
            }
            Verdict::pass(c.boundary || interesting || c.picos == 0)
        }
        Err((sig, why)) => Verdict::fail(format!("duration-{sig}"), format!("{} ps printed as {why}", c.picos)),
    }
}

fn dur_boundary() -> impl Strategy<Value = DurCase> {
    // value = A * unit / 10^k + delta, A with up to 4(+) significant digits.
    let unit = prop_oneof![
        Just(1u128),
        Just(1_000u128),
        Just(1_000_000),
        Just(1_000_000_000),
        Just(1_000_000_000_000),
        Just(60_000_000_000_000),
        Just(3_600_000_000_000_000),
        Just(86_400_000_000_000_000)
    ];
    let a = prop_oneof![
        3 => 1u128..=100_000,
        1 => (0u32..=6).prop_map(|j| 10u128.pow(j)),
        1 => (1u32..=6).prop_map(|j| 10u128.pow(j) - 1),
        1 => prop_oneof![Just(24u128), Just(60), Just(3600), Just(1440), Just(86_400)],
    ];
    (unit, a, 0u32..=4, -2000i64..=2000, any::<bool>()).prop_map(|(unit, a, k, delta, tight)| {
        let base = a * unit / 10u128.pow(k);
        let delta = if tight { delta.signum() * (delta.abs() % 3) } else { delta };
        let picos = if delta < 0 { base.saturating_sub((-delta) as u128) } else { base + delta as u128 };
        DurCase { picos, boundary: true }
    })
}

#[derive(Clone, Debug, Serialize, Deserialize)]
struct BytesCase {
    /// f64 bit pattern.
    bits: u64,
    binary: bool,
    boundary: bool,
}

fn check_bytes(c: &BytesCase) -> Verdict {
    let v = f64::from_bits(c.bits);
    if v.is_nan() || v.is_sign_negative() {
        return Verdict::pass(false);
    }
    let out = match catch(|| pure::fmt_bytes(v, 4, c.binary)) {
        Ok(o) => o,
        Err(e) => return Verdict::fail("bytes-panic", format!("{v:e} (binary={}): panic {e}", c.binary)),
    };
    if v.is_infinite() {
        vensure!(out == "inf B", "bytes-inf", "infinite size printed as {out:?}");
        return Verdict::pass(true);
    }
    let units = if c.binary { &BYTES_BIN } else { &BYTES_DEC };
    match judge(&out, &Rat::from_f64(v), units, true, false) {
        Ok(interesting) => {
            if c.boundary {
                classify("boundary");
            }
            Verdict::pass(c.boundary || interesting || v == 0.0)
        }
        Err((sig, why)) => Verdict::fail(format!("bytes-{sig}"), format!("{v:e} bytes (bits {:#x}, binary={}) printed as {why}", c.bits, c.binary)),
    }
}

/// Mantissas that put a value on a digit or unit boundary.
fn sig_a() -> impl Strategy<Value = u64> {
    prop_oneof![
        3 => 1u64..=100_000,
        1 => (0u32..=6).prop_map(|j| 10u64.pow(j)),
        1 => (1u32..=6).prop_map(|j| 10u64.pow(j) - 1),
        1 => prop_oneof![Just(1024u64), Just(1023), Just(1025), Just(512), Just(10_240), Just(102_400)],
    ]
}

fn bytes_boundary() -> impl Strategy<Value = BytesCase> {
    (any::<bool>(), 0u32..=6, sig_a(), 0u32..=4, -6i64..=6).prop_map(|(binary, ui, a, k, ulps)| {
        let base: f64 = if binary { 1024f64 } else { 1000f64 };
        let v = a as f64 * base.powi(ui as i32) / 10f64.powi(k as i32);
        let bits = (v.to_bits() as i64 + ulps).max(0) as u64;
        BytesCase { bits, binary, boundary: true }
    })
}

#[derive(Clone, Debug, Serialize, Deserialize)]
struct ThrCase {
    kind: u8,
    count: u64,
    #[serde(with = "u128_str")]
    picos: u128,
    binary: bool,
    boundary: bool,
}

fn check_throughput(c: &ThrCase) -> Verdict {
    let kind = (c.kind % 4) as usize;
    let out = match catch(|| pure::fmt_throughput(kind, c.count, c.picos, c.binary)) {
        Ok(o) => o,
        Err(e) => return Verdict::fail("throughput-panic", format!("{c:?}: panic {e}")),
    };
    let units: &[(&str, u128); 6] = match (kind, c.binary) {
        (0, false) => &BPS_DEC,
        (0, true) => &BPS_BIN,
        (1, _) => &CHARS,
        (2, _) => &CYCLES,
        _ => &ITEMS,
    };
    if c.count == 0 {
        vensure!(out == format!("0 {}", units[0].0), "throughput-zero-count", "{c:?} printed as {out:?}, expected 0 {}", units[0].0);
        return Verdict::pass(true);
    }
    if c.picos == 0 {
        vensure!(out == format!("inf {}", units[0].0), "throughput-zero-duration", "{c:?} printed as {out:?}, expected inf {}", units[0].0);
        return Verdict::pass(true);
    }
    // count * 10^12 / picos per second.
    let value = Rat::new(Big::from_u64(c.count).mul_u128(1_000_000_000_000), Big::from_u128(c.picos));
    match judge(&out, &value, units, true, true) {
        Ok(interesting) => {
            if c.boundary {
                classify("boundary");
            }
            Verdict::pass(c.boundary || interesting)
        }
        Err((sig, why)) => Verdict::fail(format!("throughput-{sig}"), format!("{c:?} printed as {why}")),
    }
}

fn thr_boundary() -> impl Strategy<Value = ThrCase> {
    // count = A * 10^j, picos = 10^p (or 1024-based for binary bytes) so that the
    // exact throughput sits on a digit / unit boundary; then nudge.
    (0u8..4, any::<bool>(), sig_a(), 0u32..=14, 0u32..=24, -2i64..=2, -2i64..=2).prop_map(|(kind, binary, a, j, p, dc, dp)| {
        let count = a.saturating_mul(10u64.saturating_pow(j));
        let count = (count as i128 + dc as i128).clamp(0, u64::MAX as i128) as u64;
        let picos = (10u128.pow(p) as i128 + dp as i128).max(0) as u128;
        ThrCase { kind, count, picos, binary, boundary: true }
    })
}

#[derive(Clone, Debug, Serialize, Deserialize)]
struct PadCase {
    #[serde(with = "u128_str")]
    picos: u128,
    precision: Option<u8>,
    width: Option<u8>,
}

fn check_pad(c: &PadCase) -> Verdict {
    let plain = match catch(|| pure::fmt_duration(c.picos, c.precision.map(|p| p as usize), None)) {
        Ok(o) => o,
        Err(e) => return Verdict::fail("duration-panic", format!("{c:?}: panic {e}")),
    };
    let padded = match catch(|| pure::fmt_duration(c.picos, c.precision.map(|p| p as usize), c.width.map(|w| w as usize))) {
        Ok(o) => o,
        Err(e) => return Verdict::fail("duration-panic", format!("{c:?}: panic {e}")),
    };
    vensure!(padded.trim_end_matches(' ') == plain, "pad-changes-text", "{c:?}: {padded:?} vs {plain:?}");
    vensure!(padded.len() >= plain.len(), "pad-truncates", "{c:?}: {padded:?} vs {plain:?}");
    vensure!(!plain.contains('e') && !plain.contains("NaN"), "format", "{c:?}: {plain:?}");
    Verdict::pass(c.width.is_some() && c.precision.is_some())
}

fn groups(g: &mut Groups) {
    g.prop("duration_bitlen", 1_200_000, 80_000_000, || bitlen_u128().prop_map(|picos| DurCase { picos, boundary: false }), check_duration);
    g.prop("duration_boundary", 2_000_000, 160_000_000, || dur_boundary(), check_duration);
    g.enumerate(
        "duration_golden",
        |_| {
            let mut v = vec![0u128, 1, 999, 1000, 1001, u128::MAX, u128::MAX - 1, 86_400_000_000_000_000 * 10_000, 86_400_000_000_000_000 * 10_000 - 1];
            for (_, u) in DUR_UNITS {
                for m in [1u128, 9, 10, 99, 100, 999, 1000, 9999, 10000] {
                    for d in [0i128, -1, 1] {
                        v.push(((u * m) as i128 + d) as u128);
                    }
                }
            }
            v.into_iter().map(|picos| DurCase { picos, boundary: true }).collect()
        },
        false,
        check_duration,
    );

    g.prop(
        "bytes_bits",
        800_000,
        40_000_000,
        || (
            prop_oneof![
                4 => (0u64..0x7ff0_0000_0000_0000),
                2 => (0u64..=(1u64 << 53)).prop_map(|i| (i as f64).to_bits()),
                2 => (0u64..=100_000_000, 1u32..=4096).prop_map(|(n, s)| (n as f64 / s as f64).to_bits()),
                1 => Just(f64::INFINITY.to_bits()),
                1 => edge_u64().prop_map(|i| (i as f64).to_bits()),
            ],
            any::<bool>(),
        )
            .prop_map(|(bits, binary)| BytesCase { bits, binary, boundary: false }),
        check_bytes,
    );
    g.prop("bytes_boundary", 1_200_000, 80_000_000, || bytes_boundary(), check_bytes);

    g.prop(
        "throughput_any",
        800_000,
        40_000_000,
        || (
            0u8..4,
            prop_oneof![4 => edge_u64(), 1 => Just(0u64), 2 => 1u64..=1_000_000],
            prop_oneof![4 => bitlen_u128(), 1 => Just(0u128), 3 => (1u128..=10_000_000_000_000)],
            any::<bool>(),
        )
            .prop_map(|(kind, count, picos, binary)| ThrCase { kind, count, picos, binary, boundary: false }),
        check_throughput,
    );
    g.prop("throughput_boundary", 1_200_000, 80_000_000, || thr_boundary(), check_throughput);

    g.prop(
        "duration_width_precision",
        400_000,
        8_000_000,
        || (prop_oneof![bitlen_u128(), dur_boundary().prop_map(|c| c.picos)], proptest::option::of(0u8..=6), proptest::option::of(0u8..=24))
            .prop_map(|(picos, precision, width)| PadCase { picos, precision, width }),
        check_pad,
    );
}
