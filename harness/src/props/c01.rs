//! C01 — each generated input is benchmarked once; each value is dropped once.
//!
//! Oracle: a per-id life-cycle automaton over the event log of the real
//! sample loop driven with instrumented values (see `loopdrv`).

use std::collections::HashMap;

use proptest::prelude::*;

use super::PropDef;
use crate::{
    engine::{classify, Verdict},
    groups::Groups,
    loopdrv::*,
    trace::paired_starts,
};

pub const DEF: PropDef = PropDef {
    id: "C01",
    groups,
    rule: "matrix: all 6 entry points x 4 input shapes x 4 output shapes ({(), ZST+Drop, sized, sized+Drop}) x {bench,test} x {T=1,T=3} enumerated; random: entry, shapes, sample_size 0..=40 (biased to 0,1,2), sample_count 0..=12, threads 1..=6, bench/test, explicit or tuned sample size, 0..=4 input counter kinds, and a panic plan (T = 1, or all threads of T > 1 on real threads; generator / counter / benched / output destructor / input destructor at occurrence k); \
           non-trivial = sample_size >= 2 effective (at least two slots exist so a swap or double use is possible) and at least one call happened; distinct = distinct (entry, input shape, output shape, loop path, T>1, panic role, test mode, tuned) cells are reported in classes, distinct cases by serialized case.",
    assumptions: &[
        "values carry an id (sized shapes) or are counted (zero-sized shapes have no identity: multiplicities and order only)",
        "instrumented sized+Drop values own no heap memory so that a double drop is observed instead of crashing; reads of uninitialised slots surface as ids that were never generated",
        "T > 1 runs on real threads: every per-thread log is deterministic, cross-thread interleavings are not controlled here (C08 does that under the scheduler)",
        "with T > 1 the panic plan is given to every thread and real timing decides which threads it reaches first; schedules that single out one thread are C08's domain",
    ],
    journal: true,
    timeout_s: (300, 3600),
    nshards: None,
};

#[derive(Default, Clone, Debug)]
struct IdState {
    gen_at: Option<u64>,
    counted: [u32; 4],
    calls: u32,
    call_window: Option<usize>,
    returned: bool,
    in_call: bool,
    out_drops: u32,
    in_drops: u32,
    in_drop_seq: Option<u64>,
    out_drop_seq: Option<u64>,
}

pub struct LifecycleStats {
    pub calls: u64,
    pub max_round_calls: usize,
}

/// The life-cycle oracle. `Err((signature, message))` on violation.
pub fn check_lifecycle(c: &LoopCase, o: &LoopOutcome) -> Result<LifecycleStats, (String, String)> {
    let fail = |sig: &str, msg: String| -> Result<LifecycleStats, (String, String)> { Err((sig.to_string(), msg)) };
    let panicked = o.result.is_err();
    if o.stray_events > 0 {
        return fail("unknown-thread", format!("{} events were logged on a thread that is neither the caller nor a pool worker", o.stray_events));
    }
    let in_identity = c.entry.has_inputs() && !c.input.is_zst();
    let out_identity = !c.output.is_zst();
    let by_ref = c.entry.by_ref();
    let kinds: Vec<usize> = (0..4).filter(|&k| c.input_counters[k] && c.entry.has_inputs()).collect();
    let mut total_calls = 0u64;
    let mut max_round_calls = 0usize;

    for (t, log) in o.logs.iter().enumerate() {
        if log.is_empty() {
            continue;
        }
        if c.entry.is_local() && t != 0 {
            return fail("local-on-worker", format!("a _local entry point ran user code on pool thread {t} (threads option {})", c.threads));
        }
        if t >= c.effective_threads() {
            return fail("extra-thread", format!("user code ran on logical thread {t} but only {} thread(s) are configured", c.effective_threads()));
        }
        let paired = paired_starts(log);
        let mut ids: HashMap<u64, IdState> = HashMap::new();
        let mut in_window = false;
        let mut window_idx = 0usize;
        let mut last_end_seq_of_window: Vec<u64> = Vec::new();
        // ZST accounting per round.
        let mut z_gen = 0u64;
        let mut z_count = [0u64; 4];
        let mut z_calls = 0u64;
        let mut z_out_drops_post = 0u64;
        let mut z_in_drops_post = 0u64;
        let mut z_in_drops_call = 0u64;
        let mut round_calls = 0usize;
        let mut call_depth = 0u32;
        let mut call_out_id: Option<u64> = None;

        macro_rules! end_round_checks {
            () => {{
                if !panicked {
                    // Per-round multiplicities for zero-sized shapes.
                    if c.entry.has_inputs() && c.input.is_zst() {
                        if z_gen != z_calls {
                            return fail("zst-gen-call-mismatch", format!("thread {t}: {z_gen} inputs generated but {z_calls} calls in the round"));
                        }
                        for &k in &kinds {
                            if z_count[k] != z_gen {
                                return fail("zst-count-mismatch", format!("thread {t}: {z_gen} inputs generated but counter {k} saw {}", z_count[k]));
                            }
                        }
                    }
                }
            }};
        }

        for (i, e) in log.iter().enumerate() {
            match e.ev {
                Ev::TsStart { .. } => {
                    if paired[i] {
                        in_window = true;
                        round_calls = 0;
                    }
                }
                Ev::TsEnd { .. } => {
                    in_window = false;
                    last_end_seq_of_window.push(e.seq);
                    window_idx += 1;
                    max_round_calls = max_round_calls.max(round_calls);
                }
                Ev::Gen { id } => {
                    if in_window {
                        return fail("gen-in-window", format!("thread {t}: input generated inside a timed section"));
                    }
                    if id == ZST_ID {
                        z_gen += 1;
                    } else {
                        if id >> 40 != t as u64 {
                            return fail("wrong-thread", format!("id {id:#x} generated on thread {t}"));
                        }
                        let st = ids.entry(id).or_default();
                        if st.gen_at.is_some() {
                            return fail("harness-duplicate-id", format!("id {id:#x} generated twice"));
                        }
                        st.gen_at = Some(e.seq);
                    }
                }
                Ev::Count { kind, id } => {
                    if id == ZST_ID {
                        z_count[kind as usize] += 1;
                    } else {
                        let Some(st) = ids.get_mut(&id) else {
                            return fail("count-unknown-id", format!("thread {t}: counter {kind} was shown a value (id {id:#x}) that this thread never generated"));
                        };
                        if st.calls > 0 {
                            return fail("count-after-call", format!("thread {t}: id {id:#x} shown to counter {kind} after it was passed to the benchmarked function"));
                        }
                        if st.in_drops > 0 {
                            return fail("use-after-drop", format!("thread {t}: id {id:#x} shown to a counter after it was dropped"));
                        }
                        st.counted[kind as usize] += 1;
                        if st.counted[kind as usize] > 1 {
                            return fail("counted-twice", format!("thread {t}: id {id:#x} shown {} times to counter {kind}", st.counted[kind as usize]));
                        }
                    }
                }
                Ev::Call { id } => {
                    total_calls += 1;
                    round_calls += 1;
                    call_depth += 1;
                    if !in_window {
                        return fail("call-outside-window", format!("thread {t}: benchmarked function called outside a timed section"));
                    }
                    if id == ZST_ID {
                        z_calls += 1;
                        call_out_id = None;
                    } else {
                        if id == u64::MAX - 1 {
                            return fail("garbage-input", format!("thread {t}: benchmarked function received a value that is not an initialised input (uninitialised or overwritten slot)"));
                        }
                        let Some(st) = ids.get_mut(&id) else {
                            return fail("call-unknown-id", format!("thread {t}: benchmarked function received id {id:#x}, which this thread never generated"));
                        };
                        if st.in_drops > 0 {
                            return fail("use-after-drop", format!("thread {t}: id {id:#x} handed to the benchmarked function after it was dropped"));
                        }
                        st.calls += 1;
                        if st.calls > 1 {
                            return fail("called-twice", format!("thread {t}: input id {id:#x} passed to {} calls", st.calls));
                        }
                        for &k in &kinds {
                            if st.counted[k] != 1 {
                                return fail("not-counted-before-call", format!("thread {t}: id {id:#x} reached the benchmarked function but counter {k} saw it {} times", st.counted[k]));
                            }
                        }
                        st.call_window = Some(window_idx);
                        st.in_call = true;
                        call_out_id = Some(id);
                    }
                }
                Ev::CallRet { id } => {
                    call_depth = call_depth.saturating_sub(1);
                    if id != ZST_ID {
                        if let Some(st) = ids.get_mut(&id) {
                            st.in_call = false;
                            st.returned = true;
                        }
                    }
                    let _ = call_out_id.take();
                }
                Ev::Consumed { .. } | Ev::AllocOp { .. } | Ev::Panic { .. } | Ev::TallyClear => {}
                Ev::DropIn { id } => {
                    if id == ZST_ID {
                        if call_depth > 0 {
                            z_in_drops_call += 1;
                        } else {
                            if in_window && !panicked {
                                return fail("input-dropped-in-window", format!("thread {t}: an input was dropped inside a timed section"));
                            }
                            z_in_drops_post += 1;
                            // (While unwinding from a panicking generator or
                            // counter the freshly generated value itself is
                            // dropped once, which is fine.)
                            if !by_ref && !panicked {
                                return fail("zst-double-drop-input", format!("thread {t}: a by-value (consumed) zero-sized input was dropped again by the loop"));
                            }
                            if !panicked && c.output == ShapeKind::ZstDrop && z_in_drops_post > z_out_drops_post {
                                return fail("input-dropped-before-output", format!("thread {t}: {z_in_drops_post} inputs dropped but only {z_out_drops_post} outputs so far"));
                            }
                        }
                    } else {
                        if id == u64::MAX - 1 {
                            return fail("garbage-drop", format!("thread {t}: destructor ran on a value that is not an initialised input"));
                        }
                        let Some(st) = ids.get_mut(&id) else {
                            return fail("drop-unknown-id", format!("thread {t}: input id {id:#x} dropped on a thread that did not generate it"));
                        };
                        st.in_drops += 1;
                        if st.in_drops > 1 {
                            return fail("double-drop-input", format!("thread {t}: input id {id:#x} dropped {} times", st.in_drops));
                        }
                        st.in_drop_seq = Some(e.seq);
                        if by_ref {
                            if st.in_call {
                                return fail("input-dropped-in-call", format!("thread {t}: by-reference input id {id:#x} dropped during its call"));
                            }
                            if in_window && !panicked {
                                return fail("input-dropped-in-window", format!("thread {t}: input id {id:#x} dropped inside a timed section"));
                            }
                            if !panicked && st.calls == 0 {
                                return fail("dropped-before-call", format!("thread {t}: input id {id:#x} dropped without having been passed to the benchmarked function"));
                            }
                            if c.output.has_drop() && out_identity && st.returned && st.out_drops == 0 {
                                return fail("input-dropped-before-output", format!("thread {t}: input id {id:#x} dropped before the output computed from it"));
                            }
                        } else if !st.in_call && !panicked {
                            // By value: only the benchmarked function drops it.
                            return fail("double-drop-input", format!("thread {t}: by-value input id {id:#x} was dropped by the loop although it was moved into the benchmarked function"));
                        }
                    }
                }
                Ev::DropOut { id } => {
                    if in_window && !panicked {
                        return fail("output-dropped-in-window", format!("thread {t}: an output (id {id:#x}) was dropped inside a timed section"));
                    }
                    if id == ZST_ID || !in_identity && c.output == ShapeKind::ZstDrop {
                        z_out_drops_post += 1;
                    } else if c.output == ShapeKind::Owned {
                        if id == u64::MAX - 1 {
                            return fail("garbage-drop", format!("thread {t}: destructor ran on a value that is not an initialised output"));
                        }
                        if in_identity {
                            let Some(st) = ids.get_mut(&id) else {
                                return fail("drop-unknown-id", format!("thread {t}: output id {id:#x} dropped but no such input was generated here"));
                            };
                            st.out_drops += 1;
                            if st.out_drops > 1 {
                                return fail("double-drop-output", format!("thread {t}: output id {id:#x} dropped {} times", st.out_drops));
                            }
                            if !st.returned {
                                return fail("output-drop-before-return", format!("thread {t}: output id {id:#x} dropped before its call returned"));
                            }
                            st.out_drop_seq = Some(e.seq);
                        } else {
                            // Output ids number the calls of this thread.
                            let st = ids.entry(id).or_default();
                            st.out_drops += 1;
                            if st.out_drops > 1 {
                                return fail("double-drop-output", format!("thread {t}: output of call {id:#x} dropped {} times", st.out_drops));
                            }
                        }
                    }
                }
            }
        }
        end_round_checks!();

        if !panicked {
            // Completed run: everything generated was called once and all
            // droppable values were dropped exactly once.
            for (id, st) in &ids {
                if st.gen_at.is_some() {
                    if st.calls != 1 {
                        return fail("never-called", format!("thread {t}: input id {id:#x} was generated but passed to {} calls", st.calls));
                    }
                    if c.input.has_drop() && st.in_drops != 1 {
                        return fail("input-leaked", format!("thread {t}: input id {id:#x} dropped {} times in a run that did not panic", st.in_drops));
                    }
                    if c.output == ShapeKind::Owned && st.out_drops != 1 {
                        return fail("output-leaked", format!("thread {t}: output id {id:#x} dropped {} times in a run that did not panic", st.out_drops));
                    }
                }
            }
            if c.output == ShapeKind::Owned && !in_identity {
                let dropped = ids.values().filter(|s| s.out_drops == 1).count() as u64;
                let calls_here = log.iter().filter(|e| matches!(e.ev, Ev::Call { .. })).count() as u64;
                if dropped != calls_here {
                    return fail("output-leaked", format!("thread {t}: {calls_here} calls but {dropped} outputs dropped"));
                }
            }
            let calls_here = log.iter().filter(|e| matches!(e.ev, Ev::Call { .. })).count() as u64;
            if c.output == ShapeKind::ZstDrop && z_out_drops_post != calls_here {
                return fail("zst-output-drop-count", format!("thread {t}: {calls_here} calls but {z_out_drops_post} zero-sized outputs dropped"));
            }
            if c.entry.has_inputs() && c.input == ShapeKind::ZstDrop {
                if by_ref && z_in_drops_post != z_gen {
                    return fail("zst-input-drop-count", format!("thread {t}: {z_gen} zero-sized inputs generated but {z_in_drops_post} dropped after the timed sections"));
                }
                if !by_ref && z_in_drops_call != z_gen {
                    return fail("zst-input-drop-count", format!("thread {t}: {z_gen} zero-sized inputs generated but {z_in_drops_call} consumed by calls"));
                }
            }
        }
    }
    Ok(LifecycleStats { calls: total_calls, max_round_calls })
}

pub fn loop_path(c: &LoopCase) -> &'static str {
    let in_zst = !c.entry.has_inputs() || c.input.is_zst();
    if in_zst && (c.output.is_zst() || !c.output.has_drop()) {
        "zst-fast-path"
    } else if c.output.has_drop() {
        "deferred-slots"
    } else {
        "inputs-only"
    }
}

pub fn check_case(c: &LoopCase) -> Verdict {
    if c.threads as usize > MAX_THREADS - 1 || c.threads == 0 {
        return Verdict::Inconclusive("bad thread count".into());
    }
    // With T > 1 a planned panic fires on every thread (each at its own k-th
    // occurrence) or, through the threads that reach a barrier first, only on
    // some: both must end the run with a panic on the caller (F3).
    let o = run_loop(c);
    if o.abandoned {
        return Verdict::Inconclusive("runaway run (event budget)".into());
    }
    // A planned panic that fired must reach the caller.
    let fired = o.logs.iter().flatten().any(|e| matches!(e.ev, Ev::Panic { .. }));
    match (&o.result, fired) {
        (Ok(()), true) => return Verdict::fail("panic-swallowed", "a user closure panicked but the entry point returned normally"),
        (Err(msg), false) => return Verdict::fail("unexpected-panic", format!("the entry point panicked without a scripted panic: {msg}")),
        _ => {}
    }
    match check_lifecycle(c, &o) {
        Err((sig, msg)) => Verdict::fail(sig, format!("{msg}\ncase: {c:?}")),
        Ok(stats) => {
            classify(format!(
                "{:?}/{:?}->{:?}/{}{}{}{}{}",
                c.entry,
                c.input,
                c.output,
                loop_path(c),
                if c.effective_threads() > 1 { "/T>1" } else { "" },
                if c.test_mode { "/test" } else { "" },
                if c.sample_size.is_none() { "/tuned" } else { "" },
                match c.panic {
                    Some(p) if fired => format!("/panic:{:?}", p.role),
                    _ => String::new(),
                }
            ));
            Verdict::pass(stats.max_round_calls >= 2 || (fired && stats.calls >= 1))
        }
    }
}

pub fn entry() -> impl Strategy<Value = Entry> {
    prop_oneof![Just(Entry::Bench), Just(Entry::BenchValues), Just(Entry::BenchRefs), Just(Entry::BenchLocal), Just(Entry::BenchLocalValues), Just(Entry::BenchLocalRefs)]
}

pub fn shape() -> impl Strategy<Value = ShapeKind> {
    prop_oneof![Just(ShapeKind::Unit), Just(ShapeKind::ZstDrop), Just(ShapeKind::Plain), Just(ShapeKind::Owned)]
}

fn role() -> impl Strategy<Value = Role> {
    prop_oneof![3 => Just(Role::Benched), 2 => Just(Role::Gen), 1 => Just(Role::Counter), 2 => Just(Role::DropOut), 2 => Just(Role::DropIn)]
}

fn random_case() -> impl Strategy<Value = LoopCase> {
    (
        (entry(), shape(), shape(), any::<bool>(), prop_oneof![3 => Just(1u8), 2 => 2u8..=6]),
        (
            prop_oneof![2 => Just(0u32), 3 => 1u32..=3, 2 => 1u32..=12],
            prop_oneof![1 => Just(Some(0u32)), 2 => Just(Some(1u32)), 3 => Just(Some(2u32)), 3 => (3u32..=40).prop_map(Some), 2 => Just(None)],
            proptest::array::uniform4(prop::bool::weighted(0.3)),
            proptest::option::weighted(0.35, (role(), 0u32..=30)),
            1u64..=400,
        ),
    )
        .prop_map(|((entry, input, output, test_mode, threads), (sample_count, sample_size, input_counters, panic, call_cost))| {
            let mut c = LoopCase::basic(entry, input, output);
            c.test_mode = test_mode;
            c.threads = threads;
            c.sample_count = Some(sample_count);
            c.sample_size = sample_size;
            c.input_counters = input_counters;
            // Tuning: precision 1 ns, calls cost `call_cost` ns so that the
            // size freezes within a few doublings.
            c.frequency = 1_000_000_000;
            c.precision_ps = 1000;
            c.costs.call = CostModel::Const(call_cost);
            c.panic = panic.map(|(role, at)| PanicPlan { role, thread: None, at });
            c
        })
}

fn matrix(_: crate::engine::Tier) -> Vec<LoopCase> {
    let mut v = Vec::new();
    for entry in Entry::ALL {
        for input in ShapeKind::ALL {
            if !entry.has_inputs() && input != ShapeKind::Unit {
                continue;
            }
            for output in ShapeKind::ALL {
                for test_mode in [false, true] {
                    for threads in [1u8, 3] {
                        let mut c = LoopCase::basic(entry, input, output);
                        c.test_mode = test_mode;
                        c.threads = threads;
                        c.sample_count = Some(4);
                        c.sample_size = Some(3);
                        c.input_counters = [true, false, false, true];
                        v.push(c);
                    }
                }
            }
        }
    }
    v
}

fn groups(g: &mut Groups) {
    g.enumerate("matrix", matrix, true, check_case);
    g.prop("random", 72_000, 4_000_000, || random_case(), check_case);
}
