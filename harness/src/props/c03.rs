//! C03 — sample_count, sample_size and threads fix the number of calls exactly.

use proptest::prelude::*;

use super::{c01, PropDef};
use crate::{
    engine::{classify, Verdict},
    groups::Groups,
    loopdrv::*,
    loopmodel::Traces,
    vensure,
};

pub const DEF: PropDef = PropDef {
    id: "C03",
    groups,
    rule: "(n in {unset, 0..=300} biased to {0,1,T-1,T,T+1,100}, s in 0..=50, T in 1..=9, bench/test, entry point, 4 representative shapes, max_time in {unset, 0}), no other time limit, cheap constant clock; options reach the loop through BenchOptions (in-process); twin_routes: generated crates (options on benchmarks, groups and the builder) run through main() configured for bench / test, run_benches() on a runner configured for test and test_benches() on a runner configured for bench, calls per invocation = s*T*ceil(n/T) (bench) or T (test) from the reference option resolution; builder_then_cli: child process, builder calls followed by config_with_args() over real flags and DIVAN_* variables (flag > variable > builder per field); \
           non-trivial = n mod T != 0, or n < T, or a zero among (n, s, max_time), or default n (loop); options set at two different levels, or an API route whose requested action differs from the configured one (twin_routes); a builder value present (builder_then_cli); distinct by serialized case.",
    assumptions: &[
        "calls are counted by the instrumented benchmarked closure per logical thread (0 = caller, k = pool thread divan-k)",
        "T > 1 runs on real threads; the per-thread call counts do not depend on the interleaving",
        "tuned sample sizes are C19's domain: here sample_size is explicit (or test mode)",
    ],
    journal: true,
    timeout_s: (300, 3600),
    nshards: None,
};

pub fn check_case(c: &LoopCase) -> Verdict {
    let t_eff = c.effective_threads() as u64;
    let n = c.sample_count.unwrap_or(100) as u64;
    let Some(s) = c.sample_size.map(|s| s as u64).or(if c.test_mode { Some(1) } else { None }) else {
        return Verdict::Inconclusive("tuned size is not C03's domain".into());
    };
    let zero = c.sample_count == Some(0) || c.sample_size == Some(0) || c.max_time == Some((0, 0));
    let o = run_loop(c);
    if o.abandoned {
        return Verdict::Inconclusive("runaway run (event budget)".into());
    }
    if let Err(e) = &o.result {
        return Verdict::fail("unexpected-panic", format!("loop panicked: {e}\ncase: {c:?}"));
    }
    if let Err((sig, msg)) = c01::check_lifecycle(c, &o) {
        return Verdict::fail(format!("lifecycle:{sig}"), format!("{msg}\ncase: {c:?}"));
    }
    let tr = Traces::of(&o);
    let (exp_rounds, exp_size): (u64, u64) = if zero {
        (0, 0)
    } else if c.test_mode {
        (1, 1)
    } else {
        ((n + t_eff - 1) / t_eff, s)
    };
    // Per thread: rounds and calls.
    for t in 0..MAX_THREADS {
        let rounds = tr.threads.get(t).map(|x| x.rounds.len()).unwrap_or(0) as u64;
        let calls: u64 = tr.threads.get(t).map(|x| x.rounds.iter().map(|r| r.calls() as u64).sum()).unwrap_or(0);
        let stray_calls = o.logs.get(t).map(|l| l.iter().filter(|e| matches!(e.ev, Ev::Call { .. })).count() as u64).unwrap_or(0);
        if (t as u64) < t_eff {
            vensure!(
                rounds == exp_rounds,
                "round-count",
                "thread {t}: {rounds} timed sections, expected ceil(n/T) = {exp_rounds} (n={n}, s={s}, T={t_eff}, test={})\ncase: {c:?}",
                c.test_mode
            );
            vensure!(
                calls == exp_rounds * exp_size && stray_calls == calls,
                "call-count",
                "thread {t}: {stray_calls} calls ({calls} inside timed sections), expected s*ceil(n/T) = {} (n={n}, s={s}, T={t_eff}, test={})\ncase: {c:?}",
                exp_rounds * exp_size,
                c.test_mode
            );
            if let Some(tt) = tr.threads.get(t) {
                for (r, round) in tt.rounds.iter().enumerate() {
                    vensure!(round.calls() as u64 == exp_size, "sample-size", "thread {t} round {r}: {} calls in the sample, expected {exp_size}\ncase: {c:?}", round.calls());
                }
            }
        } else {
            vensure!(stray_calls == 0, "call-on-extra-thread", "thread {t} made {stray_calls} calls but T = {t_eff}\ncase: {c:?}");
        }
    }
    let exp_recorded = if c.test_mode { 0 } else { exp_rounds * t_eff };
    vensure!(
        o.view.durations.len() as u64 == exp_recorded,
        "recorded-samples",
        "{} samples recorded, expected T*ceil(n/T) = {exp_recorded}\ncase: {c:?}",
        o.view.durations.len()
    );
    if !c.test_mode {
        match &o.stats {
            Some(Ok(st)) => {
                vensure!(st.sample_count as u64 == exp_recorded, "stats-samples", "Stats.sample_count {} expected {exp_recorded}\ncase: {c:?}", st.sample_count);
                vensure!(st.iter_count == exp_recorded * exp_size, "stats-iters", "Stats.iter_count {} expected {}\ncase: {c:?}", st.iter_count, exp_recorded * exp_size);
            }
            Some(Err(e)) => return Verdict::fail("stats-panic", format!("compute_stats panicked: {e}\ncase: {c:?}")),
            None => return Verdict::fail("stats-missing", format!("no stats\ncase: {c:?}")),
        }
        if let Some(text) = &o.painted {
            let first = text.lines().next().unwrap_or("");
            let cells: Vec<&str> = first.split('│').map(|x| x.trim()).collect();
            vensure!(
                cells.len() == 6 && cells[4] == exp_recorded.to_string() && cells[5] == (exp_recorded * exp_size).to_string(),
                "printed-samples-iters",
                "printed row {first:?}: samples/iters cells expected {exp_recorded}/{}\ncase: {c:?}",
                exp_recorded * exp_size
            );
        }
    }
    let nontrivial = zero || c.sample_count.is_none() || n % t_eff != 0 || n < t_eff;
    classify(format!(
        "{}{}{}",
        if zero { "zero" } else if n % t_eff != 0 { "n%T!=0" } else { "n%T==0" },
        if c.test_mode { "/test" } else { "" },
        if t_eff > 1 { "/T>1" } else { "" }
    ));
    Verdict::pass(nontrivial)
}

fn rep_shapes() -> impl Strategy<Value = (ShapeKind, ShapeKind)> {
    prop_oneof![
        Just((ShapeKind::Unit, ShapeKind::Unit)),
        Just((ShapeKind::Plain, ShapeKind::Owned)),
        Just((ShapeKind::Owned, ShapeKind::Plain)),
        Just((ShapeKind::ZstDrop, ShapeKind::ZstDrop)),
    ]
}

pub fn case() -> impl Strategy<Value = LoopCase> {
    (1u8..=9).prop_flat_map(|threads| {
        let t = threads as u32;
        (
            Just(threads),
            prop_oneof![
                2 => Just(None),
                2 => Just(Some(0u32)),
                2 => Just(Some(1u32)),
                2 => Just(Some(t.saturating_sub(1))),
                2 => Just(Some(t)),
                2 => Just(Some(t + 1)),
                1 => Just(Some(100u32)),
                4 => (0u32..=40).prop_map(Some),
                1 => (0u32..=300).prop_map(Some),
            ],
            prop_oneof![1 => Just(0u32), 3 => 1u32..=4, 2 => 0u32..=50],
            c01::entry(),
            rep_shapes(),
            prop::bool::weighted(0.25),
            prop_oneof![8 => Just(None), 1 => Just(Some((0u64, 0u32))), 1 => Just(Some((1_000_000u64, 0u32)))],
            any::<bool>(),
        )
            .prop_map(|(threads, sample_count, sample_size, entry, (input, output), test_mode, max_time, paint)| {
                let mut c = LoopCase::basic(entry, input, output);
                c.threads = threads;
                c.sample_count = sample_count;
                // Keep the default-n cases cheap.
                c.sample_size = Some(if sample_count.is_none() || sample_count > Some(60) { sample_size.min(5) } else { sample_size });
                c.test_mode = test_mode;
                c.max_time = max_time;
                c.costs.call = CostModel::Const(if paint { 3 } else { 1 });
                c
            })
    })
}

// ---------------------------------------------------------------------------
// Twin routes: the same counts when (n, s, T) reach the loop through
// attributes, groups, the Divan builder, the command line and the environment,
// and when the run is requested through `main()`, `run_benches()` or
// `test_benches()`.

use super::{
    c15,
    twin::{self, Item, OptSpec, RunCfg, TwinSpec},
    twingen,
};
use serde::{Deserialize, Serialize};

#[derive(Clone, Debug, Serialize, Deserialize)]
pub struct RouteCase {
    pub spec: TwinSpec,
    /// Runner-level options set through builder calls.
    pub runner: OptSpec,
    /// 0 `main()` configured for bench, 1 `main()` configured for test,
    /// 2 `run_benches()` on a runner configured for test,
    /// 3 `test_benches()` on a runner configured for bench.
    pub route: u8,
}

pub fn keep_short(spec: &mut TwinSpec) {
    for item in spec.items.iter_mut() {
        let m = match item {
            Item::Bench(b) => &mut b.meta,
            Item::Group(m) => m,
        };
        if let Some(o) = &mut m.options {
            o.min_time_ns = o.min_time_ns.map(|v| v.min(1000));
        }
    }
}

pub fn check_route(c: &RouteCase) -> Verdict {
    let (action, bench_mode) = match c.route {
        0 => ("bench", true),
        1 => ("test", false),
        2 => ("bench-api", true),
        _ => ("test-api", false),
    };
    let cfg = RunCfg { action: action.into(), options: c.runner.clone(), ignored: 0, ..RunCfg::default() };
    let run = match twin::run_in_process(&c.spec, &cfg) {
        Ok(r) => r,
        Err(e) => return Verdict::Inconclusive(e),
    };
    if let Some(p) = &run.panic {
        return Verdict::fail("runner-panic", format!("{action}: the runner panicked: {p}"));
    }
    // What the caller asked for decides the mode of every benchmark.
    if let Some(inv) = run.invocations.iter().find(|i| i.is_bench != bench_mode || i.is_test == bench_mode) {
        return Verdict::fail(
            "route-mode",
            format!("{action}: benchmark uid {} was run with is_bench={} is_test={} ({} calls)", inv.uid, inv.is_bench, inv.is_test, inv.calls),
        );
    }
    match c15::judge(&c.spec, &c.runner, 0, bench_mode, &run) {
        Ok(n) => {
            // The printed samples / iters cells of every row - one per thread
            // count - are those of that row's own run (C20's reference,
            // restricted to the count cells).
            if c.route == 0 {
                let shown = super::c20::Case { spec: c.spec.clone(), action: "bench".into(), filters: Vec::new(), ignored: 0, runner: c.runner.clone(), binary: false };
                if let Verdict::Fail { signature, message } = super::c20::check_case(&shown) {
                    if matches!(signature.as_str(), "count-cells" | "iters-vs-calls") {
                        return Verdict::fail(format!("route:printed:{signature}"), message);
                    }
                }
            }
            classify(format!("route={action}"));
            Verdict::pass(n || c.route >= 2)
        }
        Err((sig, msg)) => Verdict::fail(format!("route:{sig}"), format!("[{action}] {msg}")),
    }
}

fn route_case() -> impl Strategy<Value = RouteCase> {
    (twingen::spec_with(0.35), c15::runner_opts(), 0u8..=3).prop_map(|(mut spec, runner, route)| {
        keep_short(&mut spec);
        RouteCase { spec, runner, route }
    })
}

#[derive(Clone, Debug, Serialize, Deserialize)]
pub struct BuilderCliCase {
    pub spec: TwinSpec,
    /// Set through builder calls before `config_with_args()`.
    pub builder: OptSpec,
    pub flags: OptSpec,
    pub env: OptSpec,
    pub bench_mode: bool,
    /// How a test run is asked for: 0 `--test`; 1 `--bench --test` (what
    /// `cargo bench -- --test` passes); 2 `--test --bench`. `--test` wins.
    #[serde(default)]
    pub test_args_shape: u8,
}

impl BuilderCliCase {
    pub fn mode_args(&self) -> Vec<String> {
        let v: &[&str] = match (self.bench_mode, self.test_args_shape % 3) {
            (true, _) => &["--bench"],
            (false, 0) => &["--test"],
            (false, 1) => &["--bench", "--test"],
            (false, _) => &["--test", "--bench"],
        };
        v.iter().map(|s| s.to_string()).collect()
    }
}

/// Per field: flag, else environment, else builder.
pub fn merge(flags: &OptSpec, env: &OptSpec, builder: &OptSpec) -> OptSpec {
    let mut r = flags.clone();
    // An empty list cannot be passed as a flag or a variable (it is not
    // passed at all); the builder can set one.
    r.threads = r.threads.filter(|t| !t.is_empty());
    for (lower, is_env) in [(env, true), (builder, false)] {
        r.sample_count = r.sample_count.or(lower.sample_count);
        r.sample_size = r.sample_size.or(lower.sample_size);
        r.threads = r.threads.clone().or(lower.threads.clone().filter(|t| !is_env || !t.is_empty()));
        for k in 0..4 {
            r.counters[k] = r.counters[k].or(lower.counters[k]);
        }
        r.min_time_ns = r.min_time_ns.or(lower.min_time_ns);
        r.max_time_ns = r.max_time_ns.or(lower.max_time_ns);
        r.skip_ext_time = r.skip_ext_time.or(lower.skip_ext_time);
    }
    r.ignore = None;
    r
}

pub fn check_builder_cli(c: &BuilderCliCase) -> Verdict {
    let runner = merge(&c.flags, &c.env, &c.builder);
    let mut args: Vec<String> = c.mode_args();
    args.extend(["--timer".to_string(), "tsc".to_string()]);
    args.extend(c15::cli_args(&c.flags));
    let mut env = c15::cli_env(&c.env);
    env.push(("VCHECK_TWIN_BUILDER".into(), serde_json::to_string(&c.builder).unwrap()));
    let tag = format!("c03-{}", std::process::id());
    let (run, code, stderr) = match twin::run_child(&c.spec, &args, &env, &tag) {
        Ok(r) => r,
        Err(e) => return Verdict::Inconclusive(e),
    };
    vensure!(code == 0, "cli-exit", "exit code {code} for {args:?} {env:?}: {stderr}");
    match c15::judge(&c.spec, &runner, 0, c.bench_mode, &run) {
        Ok(n) => {
            classify(format!("builder={} flags={} env={}{}", !c.builder.is_empty(), !c.flags.is_empty(), !c.env.is_empty(), if !c.bench_mode && c.test_args_shape % 3 != 0 { " --bench+--test" } else { "" }));
            Verdict::pass(n && !c.builder.is_empty())
        }
        Err((sig, msg)) => Verdict::fail(format!("builder-cli:{sig}"), format!("{msg}\nbuilder {:?}\nargs {args:?} env {env:?}", c.builder)),
    }
}

pub fn builder_cli_case() -> impl Strategy<Value = BuilderCliCase> {
    let opts = |p: f64| {
        c15::runner_opts().prop_map(move |mut o| {
            let _ = p;
            // Keep bench-mode runs short and the call count decidable.
            o.min_time_ns = None;
            o.max_time_ns = o.max_time_ns.map(|v| if v % 2 == 0 { 0 } else { 2_000_000_000 });
            o
        })
    };
    (twingen::spec_with(0.3), opts(0.5), opts(0.3), opts(0.3), any::<bool>(), 0u8..=2).prop_map(|(mut spec, builder, flags, env, bench_mode, test_args_shape)| {
        keep_short(&mut spec);
        BuilderCliCase { spec, builder, flags, env, bench_mode, test_args_shape }
    })
}

fn groups(g: &mut Groups) {
    PAINT.store(true, std::sync::atomic::Ordering::SeqCst);
    g.prop("loop", 32_000, 1_600_000, || case(), check_case);
    g.prop("twin_routes", 8_000, 800_000, || route_case(), check_route);
    g.prop("builder_then_cli", 800, 40_000, || builder_cli_case(), check_builder_cli);
    // The same route with the command line parsed in this process (hook `__verif::cli`).
    g.prop("builder_then_cli_inproc", 16_000, 400_000, || builder_cli_case(), |c| twin::with_cli_in_process(|| check_builder_cli(c)));
    g.enumerate(
        "golden",
        |_| {
            // The repository's own run_count expectations: n=3, s=2, T in {1,2,3,4,5,6,9}.
            let mut v = Vec::new();
            for threads in [1u8, 2, 3, 4, 5, 6, 9] {
                for entry in [Entry::Bench, Entry::BenchValues, Entry::BenchRefs] {
                    for test_mode in [false, true] {
                        let mut c = LoopCase::basic(entry, ShapeKind::Owned, ShapeKind::Owned);
                        c.threads = threads;
                        c.sample_count = Some(3);
                        c.sample_size = Some(2);
                        c.test_mode = test_mode;
                        v.push(c);
                    }
                }
            }
            v
        },
        false,
        check_case,
    );
}
