//! C06 — pool broadcast runs the task once per index and publishes its effects.

use std::collections::{HashMap, HashSet};

use divan::__verif::sched::{vc_le, Failure};
use proptest::prelude::*;

use super::{
    pool::{self, *},
    PropDef,
};
use crate::{
    engine::{classify, Tier, Verdict},
    groups::Groups,
    vensure,
};

pub const DEF: PropDef = PropDef {
    id: "C06",
    groups,
    rule: "a history of 1..=4 broadcasts / par_extends on one pool (n 0..=4 auxiliary threads each, a panicking subset of <= 2 indices, explicit yields inside the task, reuse/clear of the result vector, index 0 panicking with a payload whose destructor panics) executed on the real pool under the deterministic scheduler with a generated schedule (PCT-style sparse preemptions, dense random choices) and spurious park wake-ups; enumerated: every choice vector with <= 2 non-zero entries (values 1..=2) within the first L positions for the histories [1], [2], [1,1] (L = yield points of the default schedule + 8); \
           non-trivial = the execution had >= 1 preemption or spurious wake-up, or a panicking subset, or a shrinking-then-growing n; distinct = distinct (history, realised interleaving) hashes.",
    assumptions: &[
        "interleavings are sequentially consistent by construction; weak memory is represented only through vector clocks that honour the Ordering arguments (a missing release/acquire edge is detected, exotic relaxed outcomes are not)",
        "the std shim implements the documented semantics of park/unpark (token, spurious wake-ups), Mutex, rendezvous channel, thread spawn; validated by running the repository's own pool tests under it",
        "'no worker touches the broadcast's shared state once the caller may have resumed' is observed through the liveness registry of shim objects inside the task block (the atomic counter and the caller's thread handle)",
    ],
    journal: true,
    timeout_s: (300, 3600),
    nshards: None,
};

pub fn judge(c: &PoolCase, o: &PoolOutcome) -> Result<bool, (String, String)> {
    let fail = |sig: &str, msg: String| Err((sig.to_string(), msg));
    match &o.report.failure {
        Some(Failure::Budget) => return Err(("__inconclusive".into(), "step budget".into())),
        Some(Failure::DeadObject(kind, op, t)) => {
            return fail("dead-object", format!("thread {t} performed {op} on a {kind} that was already dropped (the broadcast's shared state outlived by a worker)"))
        }
        Some(Failure::Abort(t)) => return fail("abort", format!("process::abort called on thread {t}")),
        Some(Failure::Deadlock(blocked)) => return fail("deadlock", format!("deadlock: {blocked:?}")),
        None => {}
    }
    if let Some(msg) = &o.report.body_panic {
        return fail("body-panic", format!("unexpected panic out of the pool: {msg}"));
    }
    let mut max_n_so_far = 0u32;
    let mut worker_of_index: HashMap<usize, usize> = HashMap::new();
    for (b, bc) in c.history.iter().enumerate() {
        let n = bc.n as usize;
        let calls: Vec<(usize, usize, std::thread::ThreadId, u64)> = o
            .events
            .iter()
            .filter_map(|e| match e {
                PEv::Call { b: eb, index, stamp, os } if *eb == b => Some((*index, stamp.thread, *os, stamp.step)),
                _ => None,
            })
            .collect();
        // 1. once per index, on the right threads.
        for index in 0..=n {
            let k = calls.iter().filter(|c| c.0 == index).count();
            if k != 1 {
                return fail("call-multiplicity", format!("broadcast #{b} (n={n}): index {index} was called {k} times"));
            }
        }
        if let Some(extra) = calls.iter().find(|c| c.0 > n) {
            return fail("call-multiplicity", format!("broadcast #{b} (n={n}): call with index {}", extra.0));
        }
        let Some((caller_tid, caller_os)) = o.events.iter().find_map(|e| match e {
            PEv::Before { b: eb, stamp, os, .. } if *eb == b => Some((stamp.thread, *os)),
            _ => None,
        }) else {
            return fail("no-start", format!("broadcast #{b} never started"));
        };
        let mut threads = HashSet::new();
        for &(index, tid, os, _) in &calls {
            if index == 0 {
                if tid != caller_tid || os != caller_os {
                    return fail("index0-not-caller", format!("broadcast #{b}: index 0 ran on thread {tid}, the caller is thread {caller_tid}"));
                }
            } else {
                if tid == caller_tid || os == caller_os {
                    return fail("aux-on-caller", format!("broadcast #{b}: index {index} ran on the calling thread"));
                }
                if !threads.insert(tid) {
                    return fail("threads-not-distinct", format!("broadcast #{b}: two indices ran on pool thread {tid}"));
                }
                // Reuse: the same index is served by the same worker.
                if let Some(prev) = worker_of_index.insert(index, tid) {
                    if prev != tid {
                        return fail("worker-not-reused", format!("index {index} ran on thread {prev} earlier and on thread {tid} in broadcast #{b}"));
                    }
                }
            }
        }
        // 2./3. return after every call ended, and happens-after it.
        let Some((after, after_panicked, spawned_after)) = o.events.iter().find_map(|e| match e {
            PEv::After { b: eb, stamp, panicked, spawned } if *eb == b => Some((*stamp, *panicked, *spawned)),
            _ => None,
        }) else {
            return fail("no-return", format!("broadcast #{b} never returned"));
        };
        for e in &o.events {
            if let PEv::Ret { b: eb, index, stamp, .. } = e {
                if *eb == b {
                    if stamp.step > after.step {
                        return fail("returned-early", format!("broadcast #{b} returned (step {}) before the call of index {index} finished (step {})", after.step, stamp.step));
                    }
                    if !vc_le(&stamp.vc, &after.vc) {
                        return fail(
                            "no-happens-before",
                            format!("broadcast #{b}: the return does not happen-after the call of index {index} (call clock {:?}, caller clock {:?}): its writes need not be visible", &stamp.vc[..6], &after.vc[..6]),
                        );
                    }
                }
            }
        }
        let ends = o.events.iter().filter(|e| matches!(e, PEv::Ret { b: eb, .. } if *eb == b)).count();
        if ends != n + 1 {
            return fail("returned-early", format!("broadcast #{b} returned after {ends} of {} calls ended", n + 1));
        }
        // The plain cells written by the calls.
        if let Some(seen) = o.cells.get(b) {
            for index in 0..=n {
                if seen[index] != result_value(b, index) {
                    return fail("write-lost", format!("broadcast #{b}: the caller does not see the write of index {index}"));
                }
            }
        }
        // A panic of index 0 whose payload destructor panics escapes broadcast; nothing else may.
        let expect_escape = bc.payload_drop_panics && bc.panics.contains(&0);
        if after_panicked && !expect_escape {
            return fail("broadcast-panicked", format!("broadcast #{b} panicked although only task calls panicked"));
        }
        // 6. spawning.
        max_n_so_far = max_n_so_far.max(n as u32);
        if spawned_after != max_n_so_far {
            return fail("spawn-count", format!("after broadcast #{b} (n={n}) {spawned_after} threads were spawned in total, expected {max_n_so_far}"));
        }
        // 4. par_extend results.
        if bc.kind == Kind::ParExtend {
            let Some((_, old_len, vec)) = o.vectors.iter().find(|(vb, _, _)| *vb == b) else {
                return fail("no-result-vector", format!("par_extend #{b} left no vector"));
            };
            if vec.len() != old_len + n + 1 {
                return fail("result-length", format!("par_extend #{b}: length {} expected {}", vec.len(), old_len + n + 1));
            }
            for index in 0..=n {
                let expect = if bc.panics.contains(&(index as u8)) { None } else { Some(result_value(b, index)) };
                if vec[old_len + index] != expect {
                    return fail("result-wrong", format!("par_extend #{b}: entry for index {index} is {:?}, expected {expect:?}", vec[old_len + index]));
                }
            }
            // Earlier elements untouched.
            if let Some((_, _, prev)) = o.vectors.iter().rev().find(|(vb, _, _)| *vb < b) {
                if !bc.clear_first && (vec.len() < prev.len() || vec[..prev.len().min(*old_len)] != prev[..prev.len().min(*old_len)]) {
                    return fail("result-clobbered", format!("par_extend #{b} changed earlier elements"));
                }
            }
        }
    }
    let ns: Vec<u8> = c.history.iter().map(|b| b.n).collect();
    let shrink_grow = ns.windows(3).any(|w| w[1] < w[0] && w[2] > w[1]);
    Ok(o.report.preemptions > 0 || o.report.spurious_wakeups > 0 || c.history.iter().any(|b| !b.panics.is_empty()) || shrink_grow)
}

pub fn check_case(c: &PoolCase) -> Verdict {
    // A payload destructor that panics on a worker aborts the process by
    // design; only index 0 may carry it.
    if pool::exceeds_thread_capacity(c) {
        return Verdict::Inconclusive("more threads than the scheduler has slots".into());
    }
    let o = run_pool(c);
    match judge(c, &o) {
        Ok(nontrivial) => {
            classify(format!("preemptions={}", o.report.preemptions.min(4)));
            if o.report.parks_blocked > 0 {
                classify("caller-parked");
            }
            Verdict::pass(nontrivial)
        }
        Err((sig, msg)) if sig == "__inconclusive" => Verdict::Inconclusive(msg),
        Err((sig, msg)) => Verdict::fail(sig, format!("{msg}\nschedule used {} of {:?}", o.report.schedule_used, c.schedule)),
    }
}

fn plain(n: u8) -> Bcast {
    Bcast { n, panics: vec![], kind: Kind::Broadcast, yields: 0, stale_token: false, clear_first: false, payload_drop_panics: false, other_caller: false }
}

pub fn enumerated(tier: Tier) -> Vec<PoolCase> {
    let mut out = Vec::new();
    let histories: Vec<Vec<Bcast>> = vec![vec![plain(1)], vec![plain(2)], vec![plain(1), plain(1)]];
    for history in histories {
        let base = PoolCase { history: history.clone(), schedule: vec![], spurious: vec![], drop_pool: true };
        let len = run_pool(&base).report.schedule_used + 8;
        let (max_p, max_c) = match tier {
            Tier::Quick => (2, 2),
            Tier::Thorough => (3, 2),
        };
        for schedule in pool::enumerate_schedules(len, max_p, max_c) {
            out.push(PoolCase { history: history.clone(), schedule, spurious: vec![], drop_pool: true });
        }
    }
    out
}

fn groups(g: &mut Groups) {
    g.enumerate("bounded_schedules", enumerated, true, check_case);
    g.prop("random", 24_000, 3_000_000, || pool::pool_case(4, 4), check_case);
    let _ = vensure_unused;
}

fn vensure_unused() -> Verdict {
    vensure!(true, "", "");
    Verdict::pass(false)
}
