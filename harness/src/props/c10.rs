//! C10 — allocation tallies are exact, per thread, and track the true peak.
//!
//! Drives `AllocProfiler<Mock>` directly through the `GlobalAlloc` trait with
//! scripted operation sequences on 1..=8 concurrent threads and compares the
//! thread-local tally with an i128 reference model after every check point.

use std::alloc::{GlobalAlloc, Layout};

use divan::{
    AllocProfiler,
    __verif::alloc::{self as valloc, TallyView},
};
use proptest::prelude::*;
use serde::{Deserialize, Serialize};

use super::PropDef;
use crate::{
    engine::{classify, Verdict},
    galloc,
    groups::Groups,
};

pub const DEF: PropDef = PropDef {
    id: "C10",
    groups,
    rule: "per thread a generated sequence over alloc / alloc_zeroed / dealloc / realloc(old,new) / clear / check with sizes 0..=2^40 (boundary-heavy, incl. shrink to 0, equal-size realloc, deallocating more than was allocated since the clear), 1..=8 threads concurrently through one AllocProfiler<Mock>; \
           non-trivial = some thread's running balance (live count or live bytes since the clear) goes negative at least once AND its peak is attained strictly inside the sequence (not at the end, not at the start) or the case has >= 2 threads; distinct = distinct serialized case.",
    assumptions: &[
        "the mock inner allocator returns dangling non-null pointers and touches no memory; the profiler never dereferences them",
        "the harness thread runs with its own allocations bypassing the profiler, so the thread-local tally sees exactly the scripted calls",
        "an equal-size realloc may be counted under grow or shrink (the property only fixes its 0 bytes)",
        "counts and sizes stay far below 2^63 (sizes <= 2^40, sequences <= a few thousand ops), so the documented no-overflow assumption of the profiler holds",
    ],
    journal: true,
    timeout_s: (180, 3600),
    nshards: None,
};

#[derive(Clone, Copy, Debug, Serialize, Deserialize)]
enum Op {
    Alloc { size: u64, align_log2: u8 },
    AllocZeroed { size: u64, align_log2: u8 },
    Dealloc { size: u64, align_log2: u8 },
    Realloc { old: u64, new: u64, align_log2: u8 },
    Clear,
    Check,
}

#[derive(Clone, Debug, Serialize, Deserialize)]
struct Case {
    threads: Vec<Vec<Op>>,
}

struct Mock;

unsafe impl GlobalAlloc for Mock {
    unsafe fn alloc(&self, layout: Layout) -> *mut u8 {
        layout.align() as *mut u8
    }
    unsafe fn alloc_zeroed(&self, layout: Layout) -> *mut u8 {
        layout.align() as *mut u8
    }
    unsafe fn realloc(&self, ptr: *mut u8, _layout: Layout, _new_size: usize) -> *mut u8 {
        ptr
    }
    unsafe fn dealloc(&self, _ptr: *mut u8, _layout: Layout) {}
}

/// Reference model, written from the property statement.
#[derive(Clone, Debug, Default)]
struct Model {
    alloc: (i128, i128),
    dealloc: (i128, i128),
    grow_bytes: i128,
    shrink_bytes: i128,
    strict_grow: i128,
    strict_shrink: i128,
    equal_realloc: i128,
    live_count: i128,
    live_bytes: i128,
    max_count: i128,
    max_bytes: i128,
    went_negative: bool,
    peak_step: usize,
    steps: usize,
}

impl Model {
    fn after(&mut self) {
        self.steps += 1;
        if self.live_count > self.max_count {
            self.max_count = self.live_count;
            self.peak_step = self.steps;
        }
        if self.live_bytes > self.max_bytes {
            self.max_bytes = self.live_bytes;
            self.peak_step = self.steps;
        }
        if self.live_count < 0 || self.live_bytes < 0 {
            self.went_negative = true;
        }
    }

    fn apply(&mut self, op: Op) {
        match op {
            Op::Alloc { size, .. } | Op::AllocZeroed { size, .. } => {
                self.alloc.0 += 1;
                self.alloc.1 += size as i128;
                self.live_count += 1;
                self.live_bytes += size as i128;
            }
            Op::Dealloc { size, .. } => {
                self.dealloc.0 += 1;
                self.dealloc.1 += size as i128;
                self.live_count -= 1;
                self.live_bytes -= size as i128;
            }
            Op::Realloc { old, new, .. } => {
                if new > old {
                    self.strict_grow += 1;
                    self.grow_bytes += (new - old) as i128;
                } else if new < old {
                    self.strict_shrink += 1;
                    self.shrink_bytes += (old - new) as i128;
                } else {
                    self.equal_realloc += 1;
                }
                self.live_bytes += new as i128 - old as i128;
            }
            Op::Clear => {
                let (neg, _) = (self.went_negative, ());
                *self = Model::default();
                self.went_negative = neg;
                return;
            }
            Op::Check => return,
        }
        self.after();
    }

    fn compare(&self, t: &TallyView, at: &str) -> Result<(), (String, String)> {
        let [grow, shrink, alloc, dealloc] = t.tallies;
        let fail = |sig: &str, what: String| Err((sig.to_string(), format!("{at}: {what}; tally={t:?}")));
        if (alloc.0 as i128, alloc.1 as i128) != self.alloc {
            return fail("alloc-tally", format!("alloc count/bytes {:?} expected {:?}", alloc, self.alloc));
        }
        if (dealloc.0 as i128, dealloc.1 as i128) != self.dealloc {
            return fail("dealloc-tally", format!("dealloc count/bytes {:?} expected {:?}", dealloc, self.dealloc));
        }
        if grow.1 as i128 != self.grow_bytes {
            return fail("grow-bytes", format!("grow bytes {} expected {}", grow.1, self.grow_bytes));
        }
        if shrink.1 as i128 != self.shrink_bytes {
            return fail("shrink-bytes", format!("shrink bytes {} expected {}", shrink.1, self.shrink_bytes));
        }
        let (g, s) = (grow.0 as i128, shrink.0 as i128);
        if g + s != self.strict_grow + self.strict_shrink + self.equal_realloc
            || g < self.strict_grow
            || s < self.strict_shrink
        {
            return fail(
                "realloc-count",
                format!(
                    "grow/shrink counts {g}/{s}, expected {} strict grows, {} strict shrinks, {} equal-size",
                    self.strict_grow, self.strict_shrink, self.equal_realloc
                ),
            );
        }
        if t.max_count as i128 != self.max_count {
            return fail("max-count", format!("max count {} expected {}", t.max_count, self.max_count));
        }
        if t.max_size as i128 != self.max_bytes {
            return fail("max-size", format!("max size {} expected {}", t.max_size, self.max_bytes));
        }
        Ok(())
    }
}

fn layout(size: u64, align_log2: u8) -> Layout {
    Layout::from_size_align(size as usize, 1usize << (align_log2 % 13)).expect("generator produces valid layouts")
}

/// Runs one thread's script; returns `(went_negative && inner peak, error)`.
fn run_script(profiler: &AllocProfiler<Mock>, who: usize, ops: &[Op]) -> Result<bool, (String, String)> {
    valloc::clear();
    let mut model = Model::default();
    let mut interesting = false;
    let mut since_clear = 0usize;
    let check = |model: &Model, i: usize| -> Result<(), (String, String)> {
        let Some(t) = valloc::try_current() else {
            return Err(("no-tally".into(), format!("thread {who}: no thread-local tally")));
        };
        model.compare(&t, &format!("thread {who} after op #{i}"))
    };
    for (i, &op) in ops.iter().enumerate() {
        let ptr = 64 as *mut u8;
        unsafe {
            match op {
                Op::Alloc { size, align_log2 } => {
                    profiler.alloc(layout(size, align_log2));
                }
                Op::AllocZeroed { size, align_log2 } => {
                    profiler.alloc_zeroed(layout(size, align_log2));
                }
                Op::Dealloc { size, align_log2 } => profiler.dealloc(ptr, layout(size, align_log2)),
                Op::Realloc { old, new, align_log2 } => {
                    profiler.realloc(ptr, layout(old, align_log2), new as usize);
                }
                Op::Clear => {
                    check(&model, i)?;
                    if model.went_negative && model.peak_step > 0 && model.peak_step < since_clear {
                        interesting = true;
                    }
                    since_clear = 0;
                    valloc::clear();
                }
                Op::Check => check(&model, i)?,
            }
        }
        model.apply(op);
        if !matches!(op, Op::Clear | Op::Check) {
            since_clear += 1;
        }
    }
    check(&model, ops.len())?;
    if model.went_negative && model.peak_step > 0 && model.peak_step < since_clear {
        interesting = true;
    }
    Ok(interesting)
}

fn check_case(case: &Case) -> Verdict {
    static PROFILER: AllocProfiler<Mock> = AllocProfiler::new(Mock);
    if case.threads.is_empty() {
        return Verdict::pass(false);
    }
    let results: Vec<Result<bool, (String, String)>> = if case.threads.len() == 1 {
        vec![run_script(&PROFILER, 0, &case.threads[0])]
    } else {
        // The calling thread's own tally must not be changed by the others.
        valloc::clear();
        unsafe {
            PROFILER.alloc(Layout::from_size_align(7, 1).unwrap());
        }
        let before = valloc::current();
        let results = std::thread::scope(|scope| {
            let handles: Vec<_> = case
                .threads
                .iter()
                .enumerate()
                .map(|(who, ops)| {
                    scope.spawn(move || {
                        galloc::set_bypass(true);
                        run_script(&PROFILER, who, ops)
                    })
                })
                .collect();
            handles
                .into_iter()
                .map(|h| h.join().unwrap_or_else(|_| Err(("thread-panic".into(), "script thread panicked".into()))))
                .collect()
        });
        let after = valloc::current();
        if before != after {
            return Verdict::fail("cross-thread", format!("calling thread's tally changed while other threads allocated: {before:?} -> {after:?}"));
        }
        results
    };
    let mut interesting = case.threads.len() >= 2;
    for r in results {
        match r {
            Ok(i) => interesting |= i,
            Err((sig, msg)) => return Verdict::fail(sig, msg),
        }
    }
    classify(format!("threads={}", case.threads.len()));
    Verdict::pass(interesting)
}

fn size() -> impl Strategy<Value = u64> {
    prop_oneof![
        3 => 0u64..=64,
        3 => 0u64..=65_536,
        2 => (0u32..=40).prop_map(|k| 1u64 << k),
        1 => (1u32..=40).prop_map(|k| (1u64 << k) - 1),
        1 => 0u64..=(1u64 << 40),
        1 => Just(0u64),
    ]
}

fn op() -> impl Strategy<Value = Op> {
    prop_oneof![
        4 => (size(), 0u8..=12).prop_map(|(size, align_log2)| Op::Alloc { size, align_log2 }),
        1 => (size(), 0u8..=12).prop_map(|(size, align_log2)| Op::AllocZeroed { size, align_log2 }),
        4 => (size(), 0u8..=12).prop_map(|(size, align_log2)| Op::Dealloc { size, align_log2 }),
        3 => (size(), size(), 0u8..=12).prop_map(|(old, new, align_log2)| Op::Realloc { old, new, align_log2 }),
        1 => (size(), 0u8..=12).prop_map(|(s, align_log2)| Op::Realloc { old: s, new: s, align_log2 }),
        1 => (size(), 0u8..=12).prop_map(|(s, align_log2)| Op::Realloc { old: s, new: 0, align_log2 }),
        1 => Just(Op::Clear),
        1 => Just(Op::Check),
    ]
}

fn groups(g: &mut Groups) {
    g.prop(
        "single_thread",
        40_000,
        2_000_000,
        || proptest::collection::vec(op(), 0..=120).prop_map(|ops| Case { threads: vec![ops] }),
        check_case,
    );
    g.prop(
        "long_sequences",
        400,
        20_000,
        || proptest::collection::vec(op(), 500..=3000).prop_map(|ops| Case { threads: vec![ops] }),
        check_case,
    );
    g.prop(
        "threads",
        4_000,
        200_000,
        || proptest::collection::vec(proptest::collection::vec(op(), 0..=150), 2..=8).prop_map(|threads| Case { threads }),
        check_case,
    );
    g.enumerate(
        "golden",
        |_| {
            use Op::*;
            let a = |size| Alloc { size, align_log2: 3 };
            let d = |size| Dealloc { size, align_log2: 3 };
            let r = |old, new| Realloc { old, new, align_log2: 0 };
            vec![
                Case { threads: vec![vec![]] },
                Case { threads: vec![vec![a(4), r(4, 8), r(8, 4), d(4)]] },
                Case { threads: vec![vec![d(16), d(16), a(8), Check, a(8), a(8), Check]] },
                Case { threads: vec![vec![a(100), a(100), d(100), d(100), a(50), Check]] },
                Case { threads: vec![vec![r(5, 5), r(0, 0), r(7, 0), r(0, 7), Check]] },
                Case { threads: vec![vec![a(10), Clear, d(10), a(3), Check, a(3), Check]] },
                Case { threads: vec![vec![a(1 << 40), r(1 << 40, 0), r(0, 1 << 40), d(1 << 40)]] },
            ]
        },
        false,
        check_case,
    );
}
