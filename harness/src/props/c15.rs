//! C15 — options resolve per field: run time over benchmark over innermost group.

use std::collections::BTreeMap;

use proptest::prelude::*;
use serde::{Deserialize, Serialize};

use super::{
    c13::{key_of_case, key_of_invocation, CaseKey},
    c14::should_run,
    twin::{self, *},
    twingen,
    twinref::{self, *},
    PropDef,
};
use crate::{
    engine::{classify, Tier, Verdict},
    groups::Groups,
    vensure,
};

pub const DEF: PropDef = PropDef {
    id: "C15",
    groups,
    rule: "presence lattice: for each of the 11 fields (sample_count, sample_size, threads, min_time, max_time, skip_ext_time, ignore, 4 counter kinds) all 2^5 patterns of {unset, value} over (runner, benchmark, 3 nested groups) with values distinct per level are enumerated (352 cases, exhaustive for that sub-space); random: generated trees with every field independently set or unset at every level, thread lists with 0 and duplicates, Bencher::counter / input_counter in the body, ignore flags {none, --ignored, --include-ignored}; runner level through Divan builder calls (in-process) and through CLI flags, DIVAN_* environment variables and both together (child process); bench-mode cases are also judged on their printed rows (C20's reference: a row per counter kind still in effect after tuning, samples / iters cells); compiled programs (real macros, ignore written as an option, as #[ignore] and as #[ignore = \"reason\"] on functions and group modules) under {no flag, --ignored, --include-ignored}; \
           non-trivial = options are set at at least two different levels (runner / benchmark / groups) for some executed benchmark, so that masking or wrong precedence would be visible; distinct by serialized case.",
    assumptions: &[
        "effective options are read inside the benchmark body through a cfg(divan_verif) accessor (the BenchOptions and thread count the runner handed to the Bencher) and cross-checked behaviourally (call counts, thread branches, skipped benchmarks)",
        "available parallelism is this machine's (thread count 0)",
        "runner-level thread lists are sorted and de-duplicated by the builder / CLI, attribute lists by the macro's IntoThreads; the twin does the latter itself",
    ],
    journal: true,
    timeout_s: (300, 3600),
    nshards: None,
};

#[derive(Clone, Debug, Serialize, Deserialize)]
pub struct Case {
    pub spec: TwinSpec,
    pub runner: OptSpec,
    pub ignored: u8,
    pub bench_mode: bool,
}

fn norm(t: &Option<Vec<usize>>) -> Option<Vec<usize>> {
    t.clone().map(normalize_threads_attr)
}

/// Judges the invocations of a run against the per-field precedence model.
pub fn judge(spec: &TwinSpec, runner: &OptSpec, flag: u8, bench_mode: bool, run: &TwinRun) -> Result<bool, (String, String)> {
    if let Some(p) = &run.panic {
        return Err(("runner-panic".into(), format!("the runner panicked: {p}")));
    }
    let tree = twinref::build(spec);
    let cases = twinref::cases(&tree);
    let by_key: BTreeMap<CaseKey, &RCase> = cases.iter().map(|k| (key_of_case(k), k)).collect();
    let mut seen: BTreeMap<CaseKey, Vec<usize>> = BTreeMap::new();
    let mut nontrivial = false;
    for inv in &run.invocations {
        let key = key_of_invocation(inv);
        let Some(case) = by_key.get(&key) else { return Err(("unknown-case".into(), format!("invocation {key:?} matches no case"))) };
        let eff = case.effective(runner);
        let path = case.path_str();
        let check = |field: &str, ok: bool, got: String, want: String| -> Result<(), (String, String)> {
            if ok {
                Ok(())
            } else {
                Err((format!("field:{field}"), format!("{path}: effective {field} is {got}, the precedence rule gives {want} (runner {runner:?}; levels benchmark..outermost group {:?})", case.levels)))
            }
        };
        check("sample_count", inv.sample_count == eff.sample_count, format!("{:?}", inv.sample_count), format!("{:?}", eff.sample_count))?;
        check("sample_size", inv.sample_size == eff.sample_size, format!("{:?}", inv.sample_size), format!("{:?}", eff.sample_size))?;
        check("threads", inv.threads == norm(&eff.threads), format!("{:?}", inv.threads), format!("{:?}", norm(&eff.threads)))?;
        check("min_time", inv.min_time_ns == eff.min_time_ns, format!("{:?}", inv.min_time_ns), format!("{:?}", eff.min_time_ns))?;
        check("max_time", inv.max_time_ns == eff.max_time_ns, format!("{:?}", inv.max_time_ns), format!("{:?}", eff.max_time_ns))?;
        check("skip_ext_time", inv.skip_ext_time == eff.skip_ext_time, format!("{:?}", inv.skip_ext_time), format!("{:?}", eff.skip_ext_time))?;
        check("ignore", inv.ignore == eff.ignore, format!("{:?}", inv.ignore), format!("{:?}", eff.ignore))?;
        for k in 0..4 {
            check(&format!("counter{k}"), inv.counters[k] == eff.counters[k], format!("{:?}", inv.counters[k]), format!("{:?}", eff.counters[k]))?;
        }
        // Counters held by the Bencher when the body starts the loop.
        let body = spec.items.iter().find_map(|i| match i {
            Item::Bench(b) if b.uid == inv.uid => Some(b.body),
            _ => None,
        });
        for k in 0..4 {
            let mut want: Vec<u64> = eff.counters[k].into_iter().collect();
            match body {
                // `Bencher::counter(BytesCount)` replaces only the bytes counter.
                Some(Body::SetsBytesCounter) if k == 0 => want = vec![7],
                // An input counter of kind items replaces the inherited items count.
                Some(Body::WithInputs) if k == 3 => want = vec![],
                _ => {}
            }
            check(&format!("bencher-counter{k}"), inv.collection_counts[k] == want, format!("{:?}", inv.collection_counts[k]), format!("{want:?}"))?;
        }
        // Skipped unless the flags say otherwise.
        if !should_run(flag, eff.ignore.unwrap_or(false)) {
            return Err(("ran-ignored".into(), format!("{path} ran although its effective ignore is {:?} and the flag is {flag}", eff.ignore)));
        }
        seen.entry(key).or_default().push(inv.thread_count);
        // Behaviour: calls.
        let has_samples = eff.sample_count != Some(0) && eff.sample_size != Some(0) && eff.max_time_ns != Some(0);
        let t = inv.thread_count as u64;
        let expect_calls: Option<u64> = if body == Some(Body::NoRun) {
            Some(0)
        } else if !has_samples {
            Some(0)
        } else if !bench_mode {
            Some(t)
        } else if eff.min_time_ns.is_none() && eff.max_time_ns.is_none() {
            let n = eff.sample_count.unwrap_or(100) as u64;
            let s = eff.sample_size.unwrap_or(1) as u64;
            Some(s * t * ((n + t - 1) / t))
        } else {
            None
        };
        if let Some(e) = expect_calls {
            if inv.calls != e {
                return Err(("calls".into(), format!("{path} (t={t}): the benchmarked closure was called {} times, the effective options {eff:?} give {e}", inv.calls)));
            }
        }
        // Non-triviality: two different fields set at two different levels.
        let mut set_at: Vec<(usize, &str)> = Vec::new();
        let all_levels: Vec<&OptSpec> = std::iter::once(runner).chain(case.levels.iter()).collect();
        for (li, l) in all_levels.iter().enumerate() {
            if l.sample_count.is_some() {
                set_at.push((li, "sample_count"));
            }
            if l.sample_size.is_some() {
                set_at.push((li, "sample_size"));
            }
            if l.threads.is_some() {
                set_at.push((li, "threads"));
            }
            if l.ignore.is_some() {
                set_at.push((li, "ignore"));
            }
            if l.skip_ext_time.is_some() {
                set_at.push((li, "skip"));
            }
            if l.counters.iter().any(|c| c.is_some()) {
                set_at.push((li, "counters"));
            }
        }
        // (or one field set at two levels, so that masking is visible)
        if set_at.iter().any(|a| set_at.iter().any(|b| a.0 != b.0)) {
            nontrivial = true;
        }
    }
    // Every case that should run did, once per thread count.
    for case in &cases {
        let eff = case.effective(runner);
        let key = key_of_case(case);
        let want = if should_run(flag, eff.ignore.unwrap_or(false)) { thread_counts(&eff.threads) } else { Vec::new() };
        let mut got = seen.get(&key).cloned().unwrap_or_default();
        got.sort_unstable();
        if got != want {
            let sig = if want.is_empty() { "ran-ignored" } else if got.is_empty() { "skipped" } else { "thread-counts" };
            return Err((sig.into(), format!("{} ran with thread counts {got:?}, expected {want:?} (effective threads {:?}, ignore {:?}, flag {flag})", case.path_str(), eff.threads, eff.ignore)));
        }
    }
    Ok(nontrivial)
}

pub fn check_case(c: &Case) -> Verdict {
    let cfg = RunCfg { action: if c.bench_mode { "bench".into() } else { "test".into() }, options: c.runner.clone(), ignored: c.ignored, ..RunCfg::default() };
    let run = match run_in_process(&c.spec, &cfg) {
        Ok(r) => r,
        Err(e) => return Verdict::Inconclusive(e),
    };
    match judge(&c.spec, &c.runner, c.ignored, c.bench_mode, &run) {
        Ok(n) => {
            // The options still in effect when the statistics are computed:
            // the printed rows of a bench run (one throughput row per counter
            // kind in effect, samples / iters cells) judged by C20's reference.
            if c.bench_mode {
                let shown = super::c20::Case { spec: c.spec.clone(), action: "bench".into(), filters: Vec::new(), ignored: c.ignored, runner: c.runner.clone(), binary: false };
                if let Verdict::Fail { signature, message } = super::c20::check_case(&shown) {
                    if matches!(signature.as_str(), "continuation-rows" | "count-cells" | "iters-vs-calls" | "throughput-cell" | "row-shape") {
                        return Verdict::fail(format!("output:{signature}"), message);
                    }
                }
            }
            classify(format!("flag={}{}", c.ignored, if c.bench_mode { "/bench" } else { "" }));
            Verdict::pass(n)
        }
        Err((sig, msg)) => Verdict::fail(sig, msg),
    }
}

fn secs(ns: u64) -> String {
    // Exact decimal seconds.
    format!("{}.{:09}", ns / 1_000_000_000, ns % 1_000_000_000)
}

#[derive(Clone, Debug, Serialize, Deserialize)]
pub struct CliCase {
    pub spec: TwinSpec,
    /// Options given as flags.
    pub flags: OptSpec,
    /// Options given as DIVAN_* variables.
    pub env: OptSpec,
    pub ignored: u8,
}

pub fn cli_args(o: &OptSpec) -> Vec<String> {
    let mut a = Vec::new();
    let mut push = |k: &str, v: String| {
        a.push(k.to_string());
        a.push(v);
    };
    if let Some(v) = o.sample_count {
        push("--sample-count", v.to_string());
    }
    if let Some(v) = o.sample_size {
        push("--sample-size", v.to_string());
    }
    if let Some(v) = &o.threads {
        if !v.is_empty() {
            push("--threads", v.iter().map(|x| x.to_string()).collect::<Vec<_>>().join(","));
        }
    }
    for (k, name) in ["--bytes-count", "--chars-count", "--cycles-count", "--items-count"].iter().enumerate() {
        if let Some(v) = o.counters[k] {
            push(name, v.to_string());
        }
    }
    if let Some(v) = o.min_time_ns {
        push("--min-time", secs(v));
    }
    if let Some(v) = o.max_time_ns {
        push("--max-time", secs(v));
    }
    if let Some(v) = o.skip_ext_time {
        push("--skip-ext-time", v.to_string());
    }
    a
}

pub fn cli_env(o: &OptSpec) -> Vec<(String, String)> {
    cli_args(o)
        .chunks(2)
        .map(|kv| (format!("DIVAN_{}", kv[0].trim_start_matches("--").replace('-', "_").to_uppercase()), kv[1].clone()))
        .collect()
}

pub fn check_cli(c: &CliCase) -> Verdict {
    // Flags win over the environment, per option.
    let mut runner = c.flags.clone();
    let e = &c.env;
    runner.sample_count = runner.sample_count.or(e.sample_count);
    runner.sample_size = runner.sample_size.or(e.sample_size);
    let flag_threads = runner.threads.clone().filter(|t| !t.is_empty());
    let env_threads = e.threads.clone().filter(|t| !t.is_empty());
    runner.threads = flag_threads.or(env_threads);
    for k in 0..4 {
        runner.counters[k] = runner.counters[k].or(e.counters[k]);
    }
    runner.min_time_ns = runner.min_time_ns.or(e.min_time_ns);
    runner.max_time_ns = runner.max_time_ns.or(e.max_time_ns);
    runner.skip_ext_time = runner.skip_ext_time.or(e.skip_ext_time);
    runner.ignore = None;
    let mut args = vec!["--test".to_string()];
    match c.ignored {
        1 => args.push("--ignored".into()),
        2 => args.push("--include-ignored".into()),
        _ => {}
    }
    args.extend(cli_args(&c.flags));
    let env = cli_env(&c.env);
    let tag = format!("c15-{}", std::process::id());
    let (run, code, stderr) = match twin::run_child(&c.spec, &args, &env, &tag) {
        Ok(r) => r,
        Err(e) => return Verdict::Inconclusive(e),
    };
    vensure!(code == 0, "cli-exit", "exit code {code} for {args:?} {env:?}: {stderr}");
    match judge(&c.spec, &runner, c.ignored, false, &run) {
        Ok(n) => {
            classify(format!("flags={} env={}", !c.flags.is_empty(), !c.env.is_empty()));
            Verdict::pass(n && (!c.flags.is_empty() || !c.env.is_empty()))
        }
        Err((sig, msg)) => Verdict::fail(format!("cli:{sig}"), format!("{msg}\nargs {args:?} env {env:?}")),
    }
}

/// crate c > mod g3 > mod g2 > mod g1 > fn b, each level optionally setting one field.
fn lattice(_: Tier) -> Vec<Case> {
    fn with_field(field: usize, level: u64) -> OptSpec {
        let mut o = OptSpec::default();
        let v = level; // distinct per level: 1..=5
        match field {
            0 => o.sample_count = Some(v as u32),
            1 => o.sample_size = Some(v as u32),
            2 => o.threads = Some(vec![v as usize]),
            3 => o.min_time_ns = Some(v),
            4 => o.max_time_ns = Some(1_000_000 * v),
            5 => o.skip_ext_time = Some(v % 2 == 0),
            6 => o.ignore = Some(v % 2 == 0),
            k => o.counters[k - 7] = Some(100 + v),
        }
        o
    }
    let loc = |line| Loc { file: "src/l.rs".into(), line, col: 1 };
    let mut out = Vec::new();
    for field in 0..11usize {
        for pattern in 0..32u32 {
            let at = |lvl: u32| pattern & (1 << lvl) != 0;
            let opt = |lvl: u32| if at(lvl) { Some(with_field(field, lvl as u64 + 1)) } else { None };
            let mut items = Vec::new();
            let path = |n: usize| ["c", "g3", "g2", "g1"][..n].iter().map(|s| s.to_string()).collect::<Vec<_>>();
            items.push(Item::Bench(BenchSpec {
                meta: Meta { module_path: path(4), raw_name: "b".into(), custom_name: None, loc: loc(9), options: opt(1) },
                args: None,
                types: None,
                consts: None,
                body: Body::Bench,
                uid: 1,
            }));
            for (i, g) in ["g1", "g2", "g3"].iter().enumerate() {
                items.push(Item::Group(Meta { module_path: path(3 - i), raw_name: g.to_string(), custom_name: None, loc: loc(i as u32 + 1), options: opt(2 + i as u32) }));
            }
            let mut runner = if at(0) { with_field(field, 1) } else { OptSpec::default() };
            // The runner cannot set ignore.
            if field == 6 {
                runner = OptSpec::default();
            }
            out.push(Case { spec: TwinSpec { items }, runner, ignored: 2, bench_mode: false });
        }
    }
    out
}

pub fn runner_opts() -> impl Strategy<Value = OptSpec> {
    twingen::opt_spec(0.3).prop_map(|mut o| {
        o.ignore = None;
        // Runner-level lists are normalised by the builder / CLI.
        o.threads = o.threads.map(normalize_threads_attr);
        // Keep bench-mode runs short.
        o.min_time_ns = o.min_time_ns.map(|v| v.min(1000));
        o
    })
}

fn case() -> impl Strategy<Value = Case> {
    (twingen::spec_with(0.35), runner_opts(), 0u8..=2, prop::bool::weighted(0.3)).prop_map(|(mut spec, runner, ignored, bench_mode)| {
        if bench_mode {
            // Bounded bench runs: small time floors only.
            for item in spec.items.iter_mut() {
                let m = match item {
                    Item::Bench(b) => &mut b.meta,
                    Item::Group(m) => m,
                };
                if let Some(o) = &mut m.options {
                    o.min_time_ns = o.min_time_ns.map(|v| v.min(1000));
                }
            }
        }
        Case { spec, runner, ignored, bench_mode }
    })
}

fn cli_case() -> impl Strategy<Value = CliCase> {
    let ns = || prop_oneof![Just(0u64), Just(500_000_000u64), Just(1_000_000_000u64), Just(250_000_000u64), Just(1_000u64), Just(2_000_000_000u64)];
    let cli_opts = move || {
        twingen::opt_spec(0.3).prop_flat_map(move |o| {
            (Just(o), proptest::option::weighted(0.2, ns()), proptest::option::weighted(0.2, ns())).prop_map(|(mut o, min, max)| {
                o.ignore = None;
                o.min_time_ns = min;
                o.max_time_ns = max;
                o.threads = o.threads.map(normalize_threads_attr);
                o
            })
        })
    };
    (twingen::spec_with(0.3), cli_opts(), cli_opts(), 0u8..=2).prop_map(|(spec, flags, env, ignored)| CliCase { spec, flags, env, ignored })
}

fn groups(g: &mut Groups) {
    g.enumerate("presence_lattice", lattice, true, check_case);
    g.prop("twin", 15_000, 1_500_000, || case(), check_case);
    super::e3::c15_groups(g);
    g.prop("cli_env", 1_200, 60_000, || cli_case(), check_cli);
    // The same route with the command line parsed in this process (hook `__verif::cli`).
    g.prop("cli_env_inproc", 20_000, 500_000, || cli_case(), |c| twin::with_cli_in_process(|| check_cli(c)));
    // Builder calls made before `config_with_args()` are the lowest run-time
    // source: flag over variable over builder, per field (C03's generator and check).
    g.prop("builder_flag_env_inproc", 16_000, 400_000, || super::c03::builder_cli_case(), |c| twin::with_cli_in_process(|| super::c03::check_builder_cli(c)));
}
