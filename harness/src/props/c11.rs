//! C11 — timestamp differences convert to picoseconds exactly, without overflow.

use std::{cell::RefCell, time::Duration};

use divan::__verif::{clock, pure};
use proptest::prelude::*;
use serde::{Deserialize, Serialize};

use super::PropDef;
use crate::{
    engine::{classify, Verdict},
    groups::Groups,
    util::edge_u64,
    vensure,
};

pub const DEF: PropDef = PropDef {
    id: "C11",
    groups,
    rule: "tsc_floor: (a,b,f) from a boundary-heavy u64 mixture, f != 0; non-trivial = (b-a)*10^12 >= 2^64 (widening matters) or b < a or an operand within 2 of a power of two / u64::MAX; \
           tsc_laws: a<=b<=c,f,k triples, non-trivial = widening matters for (c-a); \
           duration: all std Durations (secs over bit lengths, nanos < 10^9), non-trivial = secs >= 2^32 or nanos at a boundary; \
           precision: virtual clock advancing in multiples of a uniform step per reading pair, non-trivial = pattern contains zero-step and multi-step readings. Distinct = distinct serialized case.",
    assumptions: &[
        "the conversion functions are reached through cfg(divan_verif) wrappers that call the production functions unchanged",
        "precision clause: the scripted clock replaces only the source of TSC readings; precondition step*10^12 >= f (smallest non-zero duration exists) and a one-step reading pair occurs at least once every 50 pairs",
    ],
    journal: false,
    timeout_s: (120, 1800),
    nshards: None,
};

const PICOS: u128 = 1_000_000_000_000;

fn near_boundary(x: u64) -> bool {
    if x <= 2 || x >= u64::MAX - 2 {
        return true;
    }
    let lo = x.saturating_sub(2);
    let hi = x.saturating_add(2);
    (lo..=hi).any(|v| v.is_power_of_two())
}

fn freq() -> impl Strategy<Value = u64> {
    prop_oneof![
        3 => edge_u64().prop_map(|f| f.max(1)),
        2 => (0u32..=19).prop_map(|k| 10u64.pow(k)),
        2 => prop_oneof![Just(1u64), Just(24_000_000), Just(1_000_000_000), Just(2_400_000_000), Just(3_000_000_000), Just(2_899_999_000), Just(10_000_000_000), Just(19_200_000), Just(u64::MAX)],
        2 => 1u64..=20_000_000_000,
    ]
}

fn check_floor(&(a, b, f): &(u64, u64, u64)) -> Verdict {
    let q = match crate::engine::catch(|| pure::tsc_duration_since(b, a, f)) {
        Ok(q) => q,
        Err(e) => return Verdict::fail("tsc-panic", format!("elapsed({a} -> {b}) at f={f} panicked: {e}")),
    };
    if b < a {
        vensure!(q == 0, "negative-not-zero", "later={b} < earlier={a} but elapsed={q} ps (expected 0)");
        classify("b<a");
        return Verdict::pass(true);
    }
    let d = (b - a) as u128;
    let num = d * PICOS; // < 2^104
    let lo = q.checked_mul(f as u128);
    let hi = q.checked_add(1).and_then(|q1| q1.checked_mul(f as u128));
    match (lo, hi) {
        (Some(lo), Some(hi)) => {
            vensure!(
                lo <= num && num < hi,
                "not-floor",
                "a={a} b={b} f={f}: elapsed={q} ps but floor((b-a)*10^12/f)={}",
                num / f as u128
            );
        }
        _ => {
            return Verdict::fail(
                "not-floor",
                format!("a={a} b={b} f={f}: elapsed={q} ps is absurdly large (expected {})", num / f as u128),
            )
        }
    }
    let widening = num >= (1u128 << 64);
    if widening {
        classify("widening");
    }
    Verdict::pass(widening || near_boundary(a) || near_boundary(b) || near_boundary(f))
}

#[derive(Clone, Debug, Serialize, Deserialize)]
struct Laws {
    a: u64,
    ab: u64,
    bc: u64,
    f: u64,
    k: u64,
}

fn check_laws(c: &Laws) -> Verdict {
    let a = c.a;
    let Some(b) = a.checked_add(c.ab) else { return Verdict::pass(false) };
    let Some(cc) = b.checked_add(c.bc) else { return Verdict::pass(false) };
    let f = c.f;
    let d = |x: u64, y: u64| pure::tsc_duration_since(y, x, f); // elapsed from x to y
    let (dab, dbc, dac) = (d(a, b), d(b, cc), d(a, cc));
    vensure!(dab <= dac, "not-monotone", "a={a} b={b} c={cc} f={f}: d(a,b)={dab} > d(a,c)={dac}");
    let sum = dab + dbc;
    vensure!(
        sum <= dac && dac <= sum + 1,
        "not-additive",
        "a={a} b={b} c={cc} f={f}: d(a,b)+d(b,c)={sum} vs d(a,c)={dac}"
    );
    if let (Some(a2), Some(b2)) = (a.checked_add(c.k), b.checked_add(c.k)) {
        let shifted = d(a2, b2);
        vensure!(shifted == dab, "not-shift-invariant", "a={a} b={b} k={} f={f}: d(a+k,b+k)={shifted} != d(a,b)={dab}", c.k);
    }
    Verdict::pass(((cc - a) as u128) * PICOS >= (1u128 << 64))
}

fn check_duration(&(secs, nanos): &(u64, u32)) -> Verdict {
    let d = Duration::new(secs, nanos);
    let expected = (secs as u128 * 1_000_000_000 + nanos as u128) * 1000;
    let got = match crate::engine::catch(|| pure::fine_from_duration(d)) {
        Ok(g) => g,
        Err(e) => return Verdict::fail("duration-panic", format!("Duration({secs}s,{nanos}ns) -> panic {e}")),
    };
    vensure!(got == expected, "duration-wrong", "Duration({secs}s,{nanos}ns) -> {got} ps, expected {expected}");
    Verdict::pass(secs >= (1 << 32) || nanos == 0 || nanos == 999_999_999 || nanos % 1000 != 0)
}

/// `Timestamp::duration_since` through the tagged enum the sampling loop uses:
/// two OS timestamps `span` apart (any offset from "now") differ by exactly
/// `span` in picoseconds; two TSC timestamps agree with `TscTimestamp`'s own
/// conversion, i.e. with the exact floor (checked separately in `tsc_floor`).
fn check_timestamp(&(off_s, off_ns, secs, nanos, a, b, f): &(u64, u32, u64, u32, u64, u64, u64)) -> Verdict {
    let span = Duration::new(secs, nanos);
    let expected = span.as_nanos() * 1000;
    let got = match crate::engine::catch(|| pure::os_timestamp_duration_since(Duration::new(off_s, off_ns), span)) {
        Ok(Some(g)) => g,
        Ok(None) => return Verdict::pass(false),
        Err(e) => return Verdict::fail("os-timestamp-panic", format!("OS timestamps {secs}s {nanos}ns apart -> panic {e}")),
    };
    vensure!(got == expected, "os-timestamp-wrong", "OS timestamps {secs}s {nanos}ns apart (offset {off_s}s {off_ns}ns) -> {got} ps, expected {expected}");
    let (earlier, later) = (a.min(b), a.max(b));
    let want = ((later - earlier) as u128 * PICOS) / f as u128;
    let got = match crate::engine::catch(|| pure::tsc_timestamp_duration_since(later, earlier, f)) {
        Ok(g) => g,
        Err(e) => return Verdict::fail("tsc-timestamp-panic", format!("TSC timestamps {earlier} -> {later} at {f} Hz -> panic {e}")),
    };
    vensure!(got == want, "tsc-timestamp-wrong", "TSC timestamps {earlier} -> {later} at {f} Hz -> {got} ps, the exact floor is {want}");
    classify(if secs == 0 { "span < 1 s" } else if secs < 1000 { "1 s <= span < 1000 s" } else { "span >= 1000 s" });
    Verdict::pass(secs >= 1 && nanos != 0)
}

#[derive(Clone, Debug, Serialize, Deserialize)]
struct PrecisionCase {
    step: u64,
    f: u64,
    start: u64,
    /// Step multiples between the start and end reading of successive pairs.
    pattern: Vec<u8>,
    /// Ticks (in steps) that pass between pairs.
    gap: u8,
    /// A clock that is coarse relative to the cost of reading it: the first
    /// `lead` reading pairs see no step at all (measure_precision then adds
    /// delay iterations; after 10,100 pairs it is in its "delayed a lot"
    /// regime) ...
    #[serde(default)]
    lead: u32,
    /// ... except for one pair `(index, multiple)` inside the lead that spans
    /// several steps (an inflated outlier).
    #[serde(default)]
    lead_outlier: Option<(u32, u8)>,
}

thread_local! {
    static PCLOCK: RefCell<(u64, PrecisionCase, usize)> = RefCell::new((0, PrecisionCase { step: 1, f: 1, start: 0, pattern: vec![1], gap: 0, lead: 0, lead_outlier: None }, 0));
}

fn precision_reader(is_end: bool) -> u64 {
    PCLOCK.with(|c| {
        let mut c = c.borrow_mut();
        let (value, case, idx) = &mut *c;
        if is_end {
            let lead = case.lead as usize;
            let m = if *idx < lead {
                match case.lead_outlier {
                    Some((at, m)) if at as usize == *idx => m as u64,
                    _ => 0,
                }
            } else {
                case.pattern[(*idx - lead) % case.pattern.len()] as u64
            };
            *idx += 1;
            *value = value.wrapping_add(m * case.step);
            *value
        } else {
            *value = value.wrapping_add(case.gap as u64 * case.step);
            *value
        }
    })
}

/// The *reported* precision, `Timer::precision()`, is cached per timer kind for
/// the life of the process. In a fresh child process the OS timer and a TSC
/// timer on a scripted uniform clock are queried in either order: the TSC timer
/// must report its own step (not what was cached for the other timer), the OS
/// timer a positive whole number of nanoseconds (`Instant` differences are).
#[derive(Clone, Debug, Serialize, Deserialize)]
struct CachedCase {
    clock: PrecisionCase,
    tsc_first: bool,
}

pub fn cached_child(text: &str) {
    let case: CachedCase = serde_json::from_str(text).expect("parse case");
    PCLOCK.with(|c| *c.borrow_mut() = (case.clock.start, case.clock.clone(), 0));
    clock::set_reader(Some(precision_reader));
    let (os, tsc) = pure::cached_precisions(case.clock.f, case.tsc_first);
    // Asking again must not change the answer.
    let (os2, tsc2) = pure::cached_precisions(case.clock.f, !case.tsc_first);
    clock::set_reader(None);
    println!("{os} {tsc} {os2} {tsc2}");
}

fn check_cached(c: &CachedCase) -> Verdict {
    let case = &c.clock;
    let expected = (case.step as u128 * PICOS) / case.f as u128;
    if expected == 0 || case.pattern.is_empty() || !case.pattern.contains(&1) || case.lead > 0 {
        return Verdict::pass(false);
    }
    let max_reads: u64 = 4 * 100 * 200;
    let per_read = case.step.saturating_mul(4 + case.gap as u64);
    if case.start.checked_add(per_read.saturating_mul(max_reads)).is_none() {
        return Verdict::pass(false);
    }
    let exe = match std::env::current_exe() {
        Ok(e) => e,
        Err(e) => return Verdict::Inconclusive(e.to_string()),
    };
    let out = std::process::Command::new(exe).env_clear().env("VCHECK_C11_CACHED_CHILD", serde_json::to_string(c).unwrap()).stdin(std::process::Stdio::null()).output();
    let out = match out {
        Ok(o) => o,
        Err(e) => return Verdict::Inconclusive(e.to_string()),
    };
    let text = String::from_utf8_lossy(&out.stdout).to_string();
    let nums: Vec<u128> = text.split_whitespace().filter_map(|t| t.parse().ok()).collect();
    if !out.status.success() || nums.len() != 4 {
        let stderr = String::from_utf8_lossy(&out.stderr).to_string();
        if stderr.contains("panicked") {
            return Verdict::fail("cached-precision-panic", format!("{c:?}: {stderr}"));
        }
        return Verdict::Inconclusive(format!("child: status {:?}, output {text:?} {stderr:?}", out.status));
    }
    let (os, tsc, os2, tsc2) = (nums[0], nums[1], nums[2], nums[3]);
    vensure!(tsc == expected, "cached-precision-wrong", "{c:?}: the TSC timer reports {tsc} ps, its uniform step is {expected} ps (the OS timer reported {os} ps)");
    vensure!(os > 0 && os % 1000 == 0, "cached-precision-wrong", "{c:?}: the OS timer reports {os} ps, not a positive whole number of nanoseconds (the TSC timer reported {tsc} ps)");
    vensure!(os2 == os && tsc2 == tsc, "cached-precision-unstable", "{c:?}: asked again, the timers report {os2} / {tsc2} ps instead of {os} / {tsc} ps");
    classify(if c.tsc_first { "tsc first" } else { "os first" });
    Verdict::pass(expected % 1000 != 0)
}

fn check_precision(case: &PrecisionCase) -> Verdict {
    // Preconditions (documented): a non-zero smallest duration exists and is seen.
    let expected = (case.step as u128 * PICOS) / case.f as u128;
    if expected == 0 || !case.pattern.contains(&1) || case.pattern.is_empty() {
        return Verdict::pass(false);
    }
    // After a lead the first visible step must be a single one (otherwise
    // the documented "delayed a lot" bail-out may return an inflated value).
    if case.lead > 0 && case.pattern[0] != 1 {
        return Verdict::pass(false);
    }
    // Keep the counter from wrapping during the measurement.
    let max_reads: u64 = 2 * 100 * 200 + 2 * case.lead as u64;
    let per_read = case.step.saturating_mul(4 + case.gap as u64);
    if case.start.checked_add(per_read.saturating_mul(max_reads)).is_none() {
        return Verdict::pass(false);
    }
    PCLOCK.with(|c| *c.borrow_mut() = (case.start, case.clone(), 0));
    clock::set_reader(Some(precision_reader));
    let got = crate::engine::catch(|| pure::measure_tsc_precision(case.f));
    clock::set_reader(None);
    let got = match got {
        Ok(g) => g,
        Err(e) => return Verdict::fail("precision-panic", format!("{case:?}: panic {e}")),
    };
    vensure!(got == expected, "precision-wrong", "{case:?}: measured precision {got} ps, uniform step is {expected} ps");
    if case.lead > 0 {
        crate::engine::classify(format!("lead{}{}", if case.lead > 10_100 { ">10100" } else { "<=10100" }, if case.lead_outlier.is_some() { "/outlier" } else { "" }));
    }
    Verdict::pass((case.pattern.contains(&0) && case.pattern.iter().any(|&m| m > 1)) || case.lead > 10_100)
}

fn groups(g: &mut Groups) {
    g.prop("tsc_floor", 2_000_000, 160_000_000, || (edge_u64(), edge_u64(), freq()), check_floor);

    // Correlated pairs: b close to a, and differences around 2^64/10^12.
    g.prop(
        "tsc_floor_near",
        1_000_000,
        40_000_000,
        || (edge_u64(), prop_oneof![0u64..=4, 18_446_740u64..=18_446_750, edge_u64()], any::<bool>(), freq()).prop_map(|(a, d, neg, f)| {
            let b = if neg { a.wrapping_sub(d) } else { a.wrapping_add(d) };
            (a, b, f)
        }),
        check_floor,
    );

    g.prop(
        "tsc_laws",
        1_000_000,
        40_000_000,
        || (edge_u64(), edge_u64(), edge_u64(), freq(), edge_u64()).prop_map(|(a, ab, bc, f, k)| Laws { a, ab, bc, f, k }),
        check_laws,
    );

    g.prop(
        "duration",
        1_000_000,
        40_000_000,
        || (
            edge_u64(),
            prop_oneof![0u32..1_000_000_000, Just(0u32), Just(999_999_999u32), Just(1u32), (0u32..1_000_000).prop_map(|x| x * 1000)],
        ),
        check_duration,
    );

    g.prop(
        "timestamp",
        1_000_000,
        20_000_000,
        || (
            prop_oneof![Just(0u64), 0u64..100_000, 0u64..(1 << 33)],
            0u32..1_000_000_000,
            prop_oneof![3 => Just(0u64), 3 => 1u64..=5, 2 => 0u64..100_000, 1 => 0u64..(1 << 33)],
            prop_oneof![0u32..1_000_000_000, Just(0u32), Just(999_999_999u32), Just(1u32)],
            edge_u64(),
            edge_u64(),
            freq(),
        ),
        check_timestamp,
    );

    g.enumerate(
        "duration_golden",
        |_| vec![(0u64, 0u32), (u64::MAX, 999_999_999), (u64::MAX, 0), (1, 0), (0, 1), (0, 999_999_999)],
        true,
        check_duration,
    );

    g.prop(
        "cached_precision",
        1_600,
        60_000,
        || (
            prop_oneof![1u64..=1000, (0u32..40).prop_map(|k| 1u64 << k)],
            freq(),
            edge_u64().prop_map(|x| x >> 1),
            proptest::collection::vec(prop_oneof![3 => Just(1u8), 1 => Just(0u8), 1 => 2u8..=3], 1..=20),
            0u8..=3,
            any::<bool>(),
        )
            .prop_map(|(step, f, start, pattern, gap, tsc_first)| CachedCase { clock: PrecisionCase { step, f, start, pattern, gap, lead: 0, lead_outlier: None }, tsc_first }),
        check_cached,
    );

    g.prop(
        "precision",
        15_000,
        400_000,
        || (
            prop_oneof![1u64..=1000, (0u32..40).prop_map(|k| 1u64 << k), edge_u64().prop_map(|x| (x >> 20).max(1))],
            freq(),
            edge_u64().prop_map(|x| x >> 1),
            proptest::collection::vec(prop_oneof![3 => Just(1u8), 1 => Just(0u8), 1 => 2u8..=3], 1..=50),
            0u8..=3,
            prop_oneof![6 => Just(0u32), 2 => 10_050u32..=10_400, 1 => 1u32..=10_100, 1 => 10_101u32..=30_000],
            proptest::option::weighted(0.4, (0u32..=10_099, 2u8..=5)),
        )
            .prop_map(|(step, f, start, mut pattern, gap, lead, outlier)| {
                if lead > 0 {
                    // The first visible step after the lead is a single one.
                    if let Some(i) = pattern.iter().position(|&m| m == 1) {
                        pattern.rotate_left(i);
                    }
                }
                let lead_outlier = outlier.filter(|&(at, _)| at < lead);
                PrecisionCase { step, f, start, pattern, gap, lead, lead_outlier }
            }),
        check_precision,
    );
}
