//! Reference computations over loop traces, written from the property
//! statements (C02–C05, C19): timestamp conversion, the stopping rule, the
//! sample-size doubling rule, and the allocation tally of a timed section.

use divan::__verif::alloc::TallyView;

use crate::{
    loopdrv::{count_value, Ev, Event, LoopCase, LoopOutcome, ZST_ID},
    trace::{segment, Round, ThreadTrace},
};

pub const PICOS: u128 = 1_000_000_000_000;

/// floor(ticks * 10^12 / f), 0 if later < earlier.
pub fn conv(later: u64, earlier: u64, f: u64) -> u128 {
    match later.checked_sub(earlier) {
        None => 0,
        Some(d) => d as u128 * PICOS / f.max(1) as u128,
    }
}

pub fn dur_ps(d: Option<(u64, u32)>) -> Option<u128> {
    d.map(|(s, n)| (s as u128 * 1_000_000_000 + (n % 1_000_000_000) as u128) * 1000)
}

/// Reference tally of the allocator operations inside one timed section.
#[derive(Clone, Debug, Default, PartialEq, Eq)]
pub struct WindowTally {
    pub alloc: (u64, u64),
    pub dealloc: (u64, u64),
    pub grow_bytes: u64,
    pub shrink_bytes: u64,
    pub strict_grow: u64,
    pub strict_shrink: u64,
    pub equal_realloc: u64,
    pub max_count: i64,
    pub max_size: i64,
}

impl WindowTally {
    pub fn of(events: &[Event]) -> Self {
        let mut t = WindowTally::default();
        let (mut live_c, mut live_b) = (0i64, 0i64);
        for e in events {
            if let Ev::AllocOp { op, old, new } = e.ev {
                match op {
                    2 => {
                        t.alloc.0 += 1;
                        t.alloc.1 += new;
                        live_c += 1;
                        live_b += new as i64;
                    }
                    3 => {
                        t.dealloc.0 += 1;
                        t.dealloc.1 += old;
                        live_c -= 1;
                        live_b -= old as i64;
                    }
                    0 => {
                        t.strict_grow += 1;
                        t.grow_bytes += new - old;
                        live_b += (new - old) as i64;
                    }
                    1 => {
                        t.strict_shrink += 1;
                        t.shrink_bytes += old - new;
                        live_b -= (old - new) as i64;
                    }
                    _ => t.equal_realloc += 1,
                }
                t.max_count = t.max_count.max(live_c);
                t.max_size = t.max_size.max(live_b);
            }
        }
        t
    }

    pub fn is_empty(&self) -> bool {
        self.alloc.0 == 0 && self.dealloc.0 == 0 && self.strict_grow == 0 && self.strict_shrink == 0 && self.equal_realloc == 0
    }

    /// Does the recorded tally equal this reference? (An equal-size realloc
    /// may be counted as grow or shrink.)
    pub fn matches(&self, v: &TallyView) -> bool {
        let [grow, shrink, alloc, dealloc] = v.tallies;
        alloc == self.alloc
            && dealloc == self.dealloc
            && grow.1 == self.grow_bytes
            && shrink.1 == self.shrink_bytes
            && grow.0 + shrink.0 == self.strict_grow + self.strict_shrink + self.equal_realloc
            && grow.0 >= self.strict_grow
            && shrink.0 >= self.strict_shrink
            && v.max_count == self.max_count
            && v.max_size == self.max_size
    }

    /// `[grow, shrink, alloc, dealloc, (max_count, max_size)]` as used by the
    /// C05 reference (equal-size reallocs counted as the profiler does: grow).
    pub fn as_c05(&self) -> [(u64, u64); 5] {
        [
            (self.strict_grow + self.equal_realloc, self.grow_bytes),
            (self.strict_shrink, self.shrink_bytes),
            self.alloc,
            self.dealloc,
            (self.max_count as u64, self.max_size as u64),
        ]
    }
}

/// The segmented traces of all threads that took part.
pub struct Traces {
    pub threads: Vec<ThreadTrace>,
}

impl Traces {
    pub fn of(o: &LoopOutcome) -> Self {
        Traces { threads: o.logs.iter().map(|l| segment(l)).collect() }
    }

    pub fn rounds(&self) -> usize {
        self.threads.iter().map(|t| t.rounds.len()).max().unwrap_or(0)
    }

    pub fn round(&self, t: usize, r: usize) -> Option<&Round> {
        self.threads.get(t).and_then(|tt| tt.rounds.get(r))
    }

    /// Thread 0's initial start reading, if any.
    pub fn initial_start(&self) -> Option<u64> {
        self.threads.first().and_then(|t| t.lone_starts.first()).map(|&(v, _)| v)
    }
}

/// Per-iteration counter value the loop must store for a sample: sum over the
/// sample's inputs divided by the sample size.
pub fn per_iter_count(kind: u8, round: &Round, sample_size: u32) -> u64 {
    let sum: u128 = round
        .pre
        .iter()
        .filter_map(|e| match e.ev {
            Ev::Gen { id } => Some(count_value(kind, id) as u128),
            _ => None,
        })
        .sum();
    if sample_size == 0 {
        0
    } else {
        (sum / sample_size as u128) as u64
    }
}

/// The stopping rule of C04, evaluated after `k` completed rounds.
///
/// `elapsed`: elapsed benchmarking time in ps; `recorded`: samples recorded so
/// far; `want`: `Some(sample_count)` once collecting, `None` while tuning.
pub fn should_stop(elapsed: u128, recorded: u64, want: Option<u64>, min_ps: u128, max_ps: u128) -> bool {
    if elapsed >= max_ps {
        return true;
    }
    match want {
        None => false,
        Some(n) => recorded >= n && elapsed >= min_ps,
    }
}

/// Elapsed time after round `k` (0-based, inclusive) per the statement.
pub fn elapsed_after(c: &LoopCase, tr: &Traces, threads: usize, k: usize, skip_acc: &mut u128) -> Option<u128> {
    let f = c.frequency;
    if c.skip_ext_time.unwrap_or(false) {
        let slowest = (0..threads).filter_map(|t| tr.round(t, k)).map(|r| conv(r.end, r.start, f)).max()?;
        *skip_acc = skip_acc.saturating_add(slowest.max(1000));
        Some(*skip_acc)
    } else {
        let v0 = tr.initial_start()?;
        let last_end = (0..threads).filter_map(|t| tr.round(t, k)).map(|r| r.end).max()?;
        Some(conv(last_end, v0, f))
    }
}

pub fn ids_generated(round: &Round) -> Vec<u64> {
    round
        .pre
        .iter()
        .filter_map(|e| match e.ev {
            Ev::Gen { id } if id != ZST_ID => Some(id),
            _ => None,
        })
        .collect()
}

/// Which rounds a completed bench-mode run must report, and with which sample
/// size: all rounds with an explicit size; with a tuned size the rounds from
/// the first one whose slowest sample exceeds 100 precisions on (C19), or only
/// the last round if the run ended while tuning. Returns `(first_round, size)`.
pub fn reported_rounds(c: &LoopCase, tr: &Traces, threads: usize) -> Option<(usize, u64)> {
    let rounds = tr.rounds();
    if let Some(s) = c.sample_size {
        return Some((0, s as u64));
    }
    if rounds == 0 {
        return Some((0, 0));
    }
    let p = c.precision_ps.max(1) as u128;
    let mut size = 1u64;
    for k in 0..rounds {
        let slowest = (0..threads).filter_map(|t| tr.round(t, k)).map(|r| conv(r.end, r.start, c.frequency)).max()?;
        if slowest / p > 100 {
            return Some((k, size));
        }
        if k + 1 < rounds {
            size *= 2;
        }
    }
    Some((rounds - 1, size))
}
