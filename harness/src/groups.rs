//! A property is a list of *groups*; each group has a generator (or an
//! enumeration) and a check function. The same declaration serves running and
//! replaying.

use std::fmt::Debug;

use proptest::strategy::Strategy;
use serde::{de::DeserializeOwned, Serialize};
use serde_json::Value;

use crate::engine::{Ctx, Tier, Verdict};

enum Mode<'a> {
    Run,
    Replay { group: &'a str, case: &'a Value },
}

pub struct Groups<'a> {
    pub ctx: &'a Ctx,
    mode: Mode<'a>,
    replay_verdict: Option<Verdict>,
}

impl<'a> Groups<'a> {
    pub fn run(ctx: &'a Ctx) -> Self {
        Self { ctx, mode: Mode::Run, replay_verdict: None }
    }

    pub fn replay(ctx: &'a Ctx, group: &'a str, case: &'a Value) -> Self {
        Self { ctx, mode: Mode::Replay { group, case }, replay_verdict: None }
    }

    pub fn take_replay_verdict(&mut self) -> Option<Verdict> {
        self.replay_verdict.take()
    }

    pub fn tier(&self) -> Tier {
        self.ctx.tier
    }

    pub fn is_run(&self) -> bool {
        matches!(self.mode, Mode::Run)
    }

    /// A randomly generated group with `quick` / `thorough` total cases.
    pub fn prop<C, S>(
        &mut self,
        name: &str,
        quick: u64,
        thorough: u64,
        strategy: S,
        check: impl Fn(&C) -> Verdict,
    ) where
        C: Debug + Serialize + DeserializeOwned + Clone,
        S: Strategy<Value = C>,
    {
        match &self.mode {
            Mode::Run => {
                let cases = self.ctx.tier.pick(quick, thorough);
                self.ctx.run_prop(name, cases, strategy, check);
            }
            Mode::Replay { group, case } => {
                if *group == name {
                    self.replay_verdict = Some(self.ctx.replay_case::<C>(name, case, check));
                }
            }
        }
    }

    /// An enumerated group that only the calling shard evaluates (all cases).
    pub fn enumerate_local<C>(&mut self, name: &str, cases: Vec<C>, check: impl Fn(&C) -> Verdict)
    where
        C: Debug + Serialize + DeserializeOwned + Clone,
    {
        if let Mode::Run = &self.mode {
            self.ctx.run_enum_opt(name, cases, false, false, check);
        }
    }

    /// An explicitly enumerated group.
    pub fn enumerate<C>(
        &mut self,
        name: &str,
        cases: impl FnOnce(Tier) -> Vec<C>,
        exhaustive: bool,
        check: impl Fn(&C) -> Verdict,
    ) where
        C: Debug + Serialize + DeserializeOwned + Clone,
    {
        match &self.mode {
            Mode::Run => {
                let cases = cases(self.ctx.tier);
                self.ctx.run_enum(name, cases, exhaustive, check);
            }
            Mode::Replay { group, case } => {
                if *group == name {
                    self.replay_verdict = Some(self.ctx.replay_case::<C>(name, case, check));
                }
            }
        }
    }
}
