//! A property is a list of *groups*; each group has a generator (or an
//! enumeration) and a check function. The same declaration serves running and
//! replaying.

use std::fmt::Debug;

use proptest::strategy::Strategy;
use serde::{de::DeserializeOwned, Serialize};
use serde_json::Value;

use crate::engine::{Ctx, Tier, Verdict};

enum Mode<'a> {
    Run,
    Replay { group: &'a str, case: &'a Value },
    /// Generate one case of `group` from fuzzer bytes (used as the random
    /// stream of the group's generator) and check it.
    Fuzz { group: &'a str, data: &'a [u8], decode_only: bool },
}

/// What a fuzz iteration produced.
pub struct FuzzOutcome {
    pub case: Value,
    pub verdict: Option<Verdict>,
}

pub struct Groups<'a> {
    pub ctx: &'a Ctx,
    mode: Mode<'a>,
    replay_verdict: Option<Verdict>,
    fuzz_outcome: Option<FuzzOutcome>,
}

impl<'a> Groups<'a> {
    pub fn run(ctx: &'a Ctx) -> Self {
        Self { ctx, mode: Mode::Run, replay_verdict: None, fuzz_outcome: None }
    }

    pub fn replay(ctx: &'a Ctx, group: &'a str, case: &'a Value) -> Self {
        Self { ctx, mode: Mode::Replay { group, case }, replay_verdict: None, fuzz_outcome: None }
    }

    pub fn fuzz(ctx: &'a Ctx, group: &'a str, data: &'a [u8], decode_only: bool) -> Self {
        Self { ctx, mode: Mode::Fuzz { group, data, decode_only }, replay_verdict: None, fuzz_outcome: None }
    }

    pub fn take_fuzz_outcome(&mut self) -> Option<FuzzOutcome> {
        self.fuzz_outcome.take()
    }

    pub fn take_replay_verdict(&mut self) -> Option<Verdict> {
        self.replay_verdict.take()
    }

    pub fn tier(&self) -> Tier {
        self.ctx.tier
    }

    pub fn is_run(&self) -> bool {
        matches!(self.mode, Mode::Run)
    }

    /// A randomly generated group with `quick` / `thorough` total cases.
    pub fn prop<C, S>(
        &mut self,
        name: &str,
        quick: u64,
        thorough: u64,
        strategy: impl FnOnce() -> S,
        check: impl Fn(&C) -> Verdict,
    ) where
        C: Debug + Serialize + DeserializeOwned + Clone,
        S: Strategy<Value = C>,
    {
        match &self.mode {
            Mode::Run => {
                let cases = self.ctx.tier.pick(quick, thorough);
                self.ctx.run_prop(name, cases, strategy(), check);
            }
            Mode::Replay { group, case } => {
                if *group == name {
                    self.replay_verdict = Some(self.ctx.replay_case::<C>(name, case, check));
                }
            }
            Mode::Fuzz { group, data, decode_only } => {
                if *group == name {
                    use proptest::{
                        strategy::ValueTree,
                        test_runner::{Config, RngAlgorithm, TestRng, TestRunner},
                    };
                    // vendor/proptest: the pass-through source never runs dry and
                    // forks into ChaCha generators seeded from the stream.
                    let rng = TestRng::from_seed(RngAlgorithm::PassThrough, data);
                    // `Config::default()` reads the environment; do that once.
                    thread_local!(static CONFIG: Config = Config { failure_persistence: None, ..Config::default() });
                    let mut runner = TestRunner::new_with_rng(CONFIG.with(|c| c.clone()), rng);
                    if let Ok(mut tree) = strategy().new_tree(&mut runner) {
                        let case = tree.current();
                        let mut json = serde_json::to_value(&case).unwrap_or(Value::Null);
                        let run = |c: &C| crate::engine::catch(|| check(c)).unwrap_or_else(|e| Verdict::Fail { signature: "harness-panic".into(), message: e });
                        let mut verdict = if *decode_only { None } else { Some(run(&case)) };
                        // Shrink an unknown violation with proptest's own
                        // simplify / complicate walk, keeping the signature.
                        if let Some(Verdict::Fail { signature, .. }) = &verdict {
                            if self.ctx.is_known(signature).is_none() {
                                let want = signature.clone();
                                let mut steps = 0;
                                if tree.simplify() {
                                    loop {
                                        steps += 1;
                                        if steps > 4000 {
                                            break;
                                        }
                                        let c = tree.current();
                                        match run(&c) {
                                            Verdict::Fail { signature, message } if signature == want => {
                                                json = serde_json::to_value(&c).unwrap_or(Value::Null);
                                                verdict = Some(Verdict::Fail { signature, message });
                                                if !tree.simplify() {
                                                    break;
                                                }
                                            }
                                            _ => {
                                                if !tree.complicate() {
                                                    break;
                                                }
                                            }
                                        }
                                    }
                                }
                            }
                        }
                        self.fuzz_outcome = Some(FuzzOutcome { case: json, verdict });
                    }
                }
            }
        }
    }

    /// An enumerated group that only the calling shard evaluates (all cases).
    pub fn enumerate_local<C>(&mut self, name: &str, cases: Vec<C>, check: impl Fn(&C) -> Verdict)
    where
        C: Debug + Serialize + DeserializeOwned + Clone,
    {
        if let Mode::Run = &self.mode {
            self.ctx.run_enum_opt(name, cases, false, false, check);
        }
    }

    /// An explicitly enumerated group.
    pub fn enumerate<C>(
        &mut self,
        name: &str,
        cases: impl FnOnce(Tier) -> Vec<C>,
        exhaustive: bool,
        check: impl Fn(&C) -> Verdict,
    ) where
        C: Debug + Serialize + DeserializeOwned + Clone,
    {
        match &self.mode {
            Mode::Run => {
                let cases = cases(self.ctx.tier);
                self.ctx.run_enum(name, cases, exhaustive, check);
            }
            Mode::Replay { group, case } => {
                if *group == name {
                    self.replay_verdict = Some(self.ctx.replay_case::<C>(name, case, check));
                }
            }
            Mode::Fuzz { .. } => {}
        }
    }
}
