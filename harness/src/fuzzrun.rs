//! Coverage-guided campaigns (thorough tier): libFuzzer targets built with
//! `cargo +nightly fuzz build` from /repo's current tree, one target per
//! (property, group) listed in `fuzz/targets.txt`. The fuzzer's bytes are the
//! random stream of the group's proptest generator; the oracle is the group's
//! check function. A violation is only reported after the ordinary harness
//! has replayed the (shrunk) case and failed it as well; a fuzzer timeout, an
//! out-of-memory stop or a crash that does not replay is inconclusive.

use std::{
    path::{Path, PathBuf},
    process::{Command, Stdio},
    time::{Duration, Instant},
};

use serde_json::{json, Value};
use vcheck::engine::{ReplayFile, Violation, VERIF_DIR};

pub struct FuzzPhase {
    pub violations: Vec<Violation>,
    /// Reports of the fuzz build that the ordinary harness does not
    /// reproduce: kept for a human, they decide nothing (exit code unchanged).
    pub notes: Vec<String>,
    pub infra: Vec<String>,
    pub stats: Vec<Value>,
    pub executions: u64,
}

fn targets_for(id: &str) -> Vec<(String, String)> {
    let text = std::fs::read_to_string(Path::new(VERIF_DIR).join("harness/fuzz/targets.txt")).unwrap_or_default();
    text.lines()
        .filter_map(|l| {
            let mut it = l.split_whitespace();
            let (p, g, t) = (it.next()?, it.next()?, it.next()?);
            (p == id).then(|| (g.to_string(), t.to_string()))
        })
        .collect()
}

fn splitmix(x: u64) -> u64 {
    vcheck::engine::splitmix(x)
}

/// Builds every fuzz target from the current /repo tree.
fn build() -> Result<(), String> {
    let log = Path::new(VERIF_DIR).join("target/fuzz-build.log");
    let out = std::fs::File::create(&log).map_err(|e| e.to_string())?;
    let err = out.try_clone().map_err(|e| e.to_string())?;
    let status = Command::new("cargo")
        .args(["+nightly", "fuzz", "build"])
        .current_dir(Path::new(VERIF_DIR).join("harness"))
        .env("RUSTFLAGS", "--cfg divan_verif")
        .env("CARGO_NET_OFFLINE", "true")
        .stdin(Stdio::null())
        .stdout(out)
        .stderr(err)
        .status()
        .map_err(|e| format!("cargo +nightly fuzz build could not be started: {e}"))?;
    if status.success() {
        Ok(())
    } else {
        Err(format!("cargo +nightly fuzz build failed (see {})", log.display()))
    }
}

fn stat(log: &str, key: &str) -> u64 {
    log.lines().rev().find_map(|l| l.strip_prefix(key).and_then(|r| r.trim().parse().ok())).unwrap_or(0)
}

fn last_cov(log: &str) -> (u64, u64, u64) {
    for l in log.lines().rev() {
        if l.starts_with('#') && l.contains(" cov: ") {
            let grab = |k: &str| l.split(k).nth(1).and_then(|r| r.split_whitespace().next()).and_then(|v| v.split('/').next()).and_then(|v| v.parse::<u64>().ok()).unwrap_or(0);
            return (grab(" cov: "), grab(" ft: "), grab(" corp: "));
        }
    }
    (0, 0, 0)
}

pub fn run(id: &str, seed: i64, exe: &Path) -> FuzzPhase {
    let mut phase = FuzzPhase { violations: Vec::new(), notes: Vec::new(), infra: Vec::new(), stats: Vec::new(), executions: 0 };
    let targets = targets_for(id);
    if targets.is_empty() {
        return phase;
    }
    let secs: u64 = std::env::var("VCHECK_FUZZ_SECS").ok().and_then(|s| s.parse().ok()).unwrap_or(300);
    if secs == 0 {
        return phase;
    }
    if let Err(e) = build() {
        phase.infra.push(format!("fuzz targets unavailable: {e}"));
        return phase;
    }
    let bin_dir = Path::new(VERIF_DIR).join("target/x86_64-unknown-linux-gnu/release");
    let work = Path::new(VERIF_DIR).join("target/fuzz-work").join(format!("{id}-{}", std::process::id()));
    let _ = std::fs::remove_dir_all(&work);
    let procs_per_target = (16 / targets.len()).clamp(1, 8);

    struct Job {
        group: String,
        target: String,
        k: usize,
        dir: PathBuf,
        child: std::process::Child,
        status: Option<std::process::ExitStatus>,
    }
    let start = Instant::now();
    let mut jobs: Vec<Job> = Vec::new();
    for (group, target) in &targets {
        for k in 0..procs_per_target {
            let dir = work.join(format!("{target}-{k}"));
            let corpus = dir.join("corpus");
            let out = dir.join("out");
            for d in [&corpus, &out, &dir.join("art")] {
                let _ = std::fs::create_dir_all(d);
            }
            // A few random starting inputs of full length: libFuzzer grows
            // an empty corpus slowly.
            let mut x = splitmix(seed as u64 ^ vcheck::engine::fnv64(target.as_bytes()) ^ (k as u64) << 32);
            for n in 0..8 {
                let len = [16usize, 64, 256, 1024][n % 4];
                let mut bytes = Vec::with_capacity(len);
                while bytes.len() < len {
                    x = splitmix(x);
                    bytes.extend_from_slice(&x.to_le_bytes());
                }
                let _ = std::fs::write(corpus.join(format!("seed-{n}")), &bytes[..len]);
            }
            let mut cmd = Command::new(bin_dir.join(target));
            cmd.arg(&corpus);
            let committed = Path::new(VERIF_DIR).join("harness/fuzz/seeds").join(target);
            if committed.is_dir() {
                cmd.arg(&committed);
            }
            let fseed = (splitmix(seed as u64 ^ ((k as u64 + 1) << 20)) % 0x7fff_fffe) + 1;
            cmd.args([
                format!("-artifact_prefix={}/", dir.join("art").display()),
                format!("-max_total_time={secs}"),
                format!("-seed={fseed}"),
                "-len_control=0".into(),
                "-max_len=4096".into(),
                "-timeout=120".into(),
                "-rss_limit_mb=6144".into(),
                "-print_final_stats=1".into(),
                "-detect_leaks=0".into(),
            ]);
            cmd.env("ASAN_OPTIONS", "detect_leaks=0:allocator_may_return_null=1")
                .env("VCHECK_FUZZ_OUT", &out)
                .stdin(Stdio::null())
                .stdout(Stdio::null())
                .stderr(std::fs::File::create(dir.join("log")).map(Stdio::from).unwrap_or_else(|_| Stdio::null()));
            match cmd.spawn() {
                Ok(child) => jobs.push(Job { group: group.clone(), target: target.clone(), k, dir, child, status: None }),
                Err(e) => phase.infra.push(format!("fuzz target {target} could not be started: {e}")),
            }
        }
    }
    // libFuzzer stops by itself; the watchdog only covers a wedged process.
    let watchdog = Duration::from_secs(secs + 300);
    loop {
        let mut all = true;
        for j in jobs.iter_mut() {
            if j.status.is_none() {
                match j.child.try_wait() {
                    Ok(Some(s)) => j.status = Some(s),
                    Ok(None) => all = false,
                    Err(_) => j.status = Some(Default::default()),
                }
            }
        }
        if all {
            break;
        }
        if start.elapsed() > watchdog {
            for j in jobs.iter_mut() {
                if j.status.is_none() {
                    let _ = j.child.kill();
                    let _ = j.child.wait();
                    phase.infra.push(format!("fuzz target {} #{} exceeded the watchdog (inconclusive, not a violation)", j.target, j.k));
                }
            }
            break;
        }
        std::thread::sleep(Duration::from_millis(200));
    }

    let keep = Path::new(VERIF_DIR).join("target/fuzz-kept");
    for j in &jobs {
        let log = std::fs::read(j.dir.join("log")).map(|b| String::from_utf8_lossy(&b).into_owned()).unwrap_or_default();
        let execs = stat(&log, "stat::number_of_executed_units:");
        let (cov, ft, corp) = last_cov(&log);
        phase.executions += execs;
        let code = j.status.and_then(|s| s.code());
        phase.stats.push(json!({
            "target": j.target, "group": j.group, "process": j.k, "executions": execs,
            "coverage_edges": cov, "features": ft, "corpus_units": corp, "seconds": secs, "exit": code,
        }));
        // Violations the target wrote out.
        let mut found = 0;
        if let Ok(rd) = std::fs::read_dir(j.dir.join("out")) {
            for e in rd.flatten() {
                let Some(rf) = std::fs::read(e.path()).ok().and_then(|b| serde_json::from_slice::<ReplayFile>(&b).ok()) else { continue };
                found += 1;
                // Confirm in the ordinary harness.
                let confirmed = Command::new(exe).args(["replay", id]).arg(e.path()).stdin(Stdio::null()).stdout(Stdio::null()).stderr(Stdio::null()).status().ok().and_then(|s| s.code());
                if confirmed == Some(1) {
                    phase.violations.push(Violation {
                        group: rf.group.clone(),
                        signature: rf.signature.clone(),
                        message: format!("{} (found by libFuzzer target {})", rf.message, j.target),
                        case: rf.case.clone(),
                        shrunk: true,
                    });
                } else {
                    let _ = std::fs::create_dir_all(&keep);
                    let kept = keep.join(e.file_name());
                    let _ = std::fs::copy(e.path(), &kept);
                    phase.notes.push(format!(
                        "fuzz target {} (ASan build, debug assertions) reported {} but the ordinary harness does not reproduce it (replay exit {:?}); case kept at {}; not a violation",
                        j.target,
                        rf.signature,
                        confirmed,
                        kept.display()
                    ));
                }
            }
        }
        match code {
            Some(0) => {}
            _ if found > 0 => {}
            Some(70) => phase.infra.push(format!("fuzz target {} #{}: one input exceeded libFuzzer's 120 s timeout (inconclusive, not a violation)", j.target, j.k)),
            Some(71) => phase.infra.push(format!("fuzz target {} #{}: out of memory (inconclusive, not a violation)", j.target, j.k)),
            other => {
                // A crash without a verdict from the oracle: keep the input
                // and the tail of the log; decode and replay the case.
                let _ = std::fs::create_dir_all(&keep);
                let mut kept_input = None;
                if let Ok(rd) = std::fs::read_dir(j.dir.join("art")) {
                    for e in rd.flatten() {
                        let dst = keep.join(format!("{}-{}", j.target, e.file_name().to_string_lossy()));
                        let _ = std::fs::copy(e.path(), &dst);
                        kept_input = Some(dst);
                    }
                }
                let tail: Vec<&str> = log.lines().filter(|l| l.contains("ERROR") || l.contains("SUMMARY") || l.contains("panicked")).take(4).collect();
                let mut confirmed = None;
                if let Some(input) = &kept_input {
                    let decoded = input.with_extension("json");
                    let ok = Command::new(exe).args(["fuzz-decode", id, &j.group]).arg(input).arg(&decoded).stdin(Stdio::null()).stdout(Stdio::null()).stderr(Stdio::null()).status().map(|s| s.success()).unwrap_or(false);
                    if ok {
                        confirmed = Command::new(exe).args(["replay", id]).arg(&decoded).stdin(Stdio::null()).stdout(Stdio::null()).stderr(Stdio::null()).status().ok().and_then(|s| s.code());
                        if confirmed == Some(1) {
                            if let Some(rf) = std::fs::read(&decoded).ok().and_then(|b| serde_json::from_slice::<ReplayFile>(&b).ok()) {
                                phase.violations.push(Violation {
                                    group: j.group.clone(),
                                    signature: "fuzz-crash".into(),
                                    message: format!("libFuzzer target {} crashed on this case ({}) and the ordinary harness fails it too", j.target, tail.join(" | ")),
                                    case: rf.case,
                                    shrunk: false,
                                });
                            }
                        }
                    }
                }
                if confirmed != Some(1) {
                    phase.infra.push(format!(
                        "fuzz target {} #{} stopped with exit {:?} without an oracle verdict ({}); input kept at {:?}; the ordinary harness does not reproduce a violation (inconclusive, not a violation)",
                        j.target,
                        j.k,
                        other,
                        tail.join(" | "),
                        kept_input
                    ));
                }
            }
        }
    }
    let _ = std::fs::remove_dir_all(&work);
    phase
}
