//! Minimal arbitrary-precision unsigned integer for exact oracles
//! (multiplication, shifting, comparison, decimal parsing; no division).

use std::cmp::Ordering;

#[derive(Clone, Debug, PartialEq, Eq)]
pub struct Big {
    /// Little-endian 32-bit limbs without trailing zero limbs.
    limbs: Vec<u32>,
}

impl Big {
    pub fn zero() -> Self {
        Self { limbs: Vec::new() }
    }

    pub fn from_u128(mut v: u128) -> Self {
        let mut limbs = Vec::new();
        while v != 0 {
            limbs.push(v as u32);
            v >>= 32;
        }
        Self { limbs }
    }

    pub fn from_u64(v: u64) -> Self {
        Self::from_u128(v as u128)
    }

    pub fn is_zero(&self) -> bool {
        self.limbs.is_empty()
    }

    fn trim(&mut self) {
        while self.limbs.last() == Some(&0) {
            self.limbs.pop();
        }
    }

    pub fn mul_u32(&self, m: u32) -> Self {
        if m == 0 || self.is_zero() {
            return Self::zero();
        }
        let mut out = Vec::with_capacity(self.limbs.len() + 1);
        let mut carry: u64 = 0;
        for &l in &self.limbs {
            let v = l as u64 * m as u64 + carry;
            out.push(v as u32);
            carry = v >> 32;
        }
        if carry != 0 {
            out.push(carry as u32);
        }
        Self { limbs: out }
    }

    pub fn mul(&self, other: &Big) -> Self {
        if self.is_zero() || other.is_zero() {
            return Self::zero();
        }
        let mut out = vec![0u32; self.limbs.len() + other.limbs.len() + 1];
        for (i, &a) in self.limbs.iter().enumerate() {
            let mut carry: u64 = 0;
            for (j, &b) in other.limbs.iter().enumerate() {
                let v = out[i + j] as u64 + a as u64 * b as u64 + carry;
                out[i + j] = v as u32;
                carry = v >> 32;
            }
            let mut k = i + other.limbs.len();
            while carry != 0 {
                let v = out[k] as u64 + carry;
                out[k] = v as u32;
                carry = v >> 32;
                k += 1;
            }
        }
        let mut r = Self { limbs: out };
        r.trim();
        r
    }

    pub fn mul_u128(&self, m: u128) -> Self {
        self.mul(&Big::from_u128(m))
    }

    pub fn add_u32(&self, a: u32) -> Self {
        let mut out = self.limbs.clone();
        let mut carry = a as u64;
        let mut i = 0;
        while carry != 0 {
            if i == out.len() {
                out.push(0);
            }
            let v = out[i] as u64 + carry;
            out[i] = v as u32;
            carry = v >> 32;
            i += 1;
        }
        Self { limbs: out }
    }

    pub fn add(&self, other: &Big) -> Self {
        let n = self.limbs.len().max(other.limbs.len());
        let mut out = Vec::with_capacity(n + 1);
        let mut carry = 0u64;
        for i in 0..n {
            let v = *self.limbs.get(i).unwrap_or(&0) as u64 + *other.limbs.get(i).unwrap_or(&0) as u64 + carry;
            out.push(v as u32);
            carry = v >> 32;
        }
        if carry != 0 {
            out.push(carry as u32);
        }
        Self { limbs: out }
    }

    pub fn shl(&self, bits: u32) -> Self {
        if self.is_zero() {
            return Self::zero();
        }
        let limb_shift = (bits / 32) as usize;
        let bit_shift = bits % 32;
        let mut out = vec![0u32; limb_shift];
        if bit_shift == 0 {
            out.extend_from_slice(&self.limbs);
        } else {
            let mut carry = 0u32;
            for &l in &self.limbs {
                out.push((l << bit_shift) | carry);
                carry = l >> (32 - bit_shift);
            }
            if carry != 0 {
                out.push(carry);
            }
        }
        Self { limbs: out }
    }

    pub fn pow10(k: u32) -> Self {
        let mut r = Big::from_u64(1);
        for _ in 0..k {
            r = r.mul_u32(10);
        }
        r
    }

    /// Parses ASCII decimal digits.
    pub fn from_decimal(s: &str) -> Option<Self> {
        if s.is_empty() {
            return None;
        }
        let mut r = Big::zero();
        for b in s.bytes() {
            if !b.is_ascii_digit() {
                return None;
            }
            r = r.mul_u32(10).add_u32((b - b'0') as u32);
        }
        Some(r)
    }
}

impl PartialOrd for Big {
    fn partial_cmp(&self, other: &Self) -> Option<Ordering> {
        Some(self.cmp(other))
    }
}

impl Ord for Big {
    fn cmp(&self, other: &Self) -> Ordering {
        match self.limbs.len().cmp(&other.limbs.len()) {
            Ordering::Equal => {}
            o => return o,
        }
        for (a, b) in self.limbs.iter().rev().zip(other.limbs.iter().rev()) {
            match a.cmp(b) {
                Ordering::Equal => {}
                o => return o,
            }
        }
        Ordering::Equal
    }
}

/// An exact non-negative rational `num / den` (den > 0).
#[derive(Clone, Debug)]
pub struct Rat {
    pub num: Big,
    pub den: Big,
}

impl Rat {
    pub fn new(num: Big, den: Big) -> Self {
        assert!(!den.is_zero());
        Self { num, den }
    }

    pub fn from_u128(v: u128) -> Self {
        Self { num: Big::from_u128(v), den: Big::from_u64(1) }
    }

    /// Exact value of a finite non-negative f64.
    pub fn from_f64(v: f64) -> Self {
        assert!(v.is_finite() && v >= 0.0);
        let bits = v.to_bits();
        let exp = ((bits >> 52) & 0x7ff) as i32;
        let frac = bits & ((1u64 << 52) - 1);
        let (m, e) = if exp == 0 { (frac, -1074) } else { (frac | (1u64 << 52), exp - 1075) };
        if e >= 0 {
            Self { num: Big::from_u64(m).shl(e as u32), den: Big::from_u64(1) }
        } else {
            Self { num: Big::from_u64(m), den: Big::from_u64(1).shl((-e) as u32) }
        }
    }

    pub fn mul_int(&self, m: &Big) -> Self {
        Self { num: self.num.mul(m), den: self.den.clone() }
    }

    pub fn div_int(&self, d: &Big) -> Self {
        Self { num: self.num.clone(), den: self.den.mul(d) }
    }

    pub fn cmp_rat(&self, other: &Rat) -> Ordering {
        self.num.mul(&other.den).cmp(&other.num.mul(&self.den))
    }

    pub fn ge(&self, other: &Rat) -> bool {
        self.cmp_rat(other) != Ordering::Less
    }

    pub fn lt(&self, other: &Rat) -> bool {
        self.cmp_rat(other) == Ordering::Less
    }
}

#[cfg(test)]
mod tests {
    use super::*;

    #[test]
    fn basics() {
        let a = Big::from_decimal("340282366920938463463374607431768211456").unwrap(); // 2^128
        assert_eq!(a, Big::from_u64(1).shl(128));
        assert!(Big::from_u128(u128::MAX) < a);
        assert_eq!(Big::from_u128(u128::MAX).add_u32(1), a);
        assert_eq!(Big::pow10(20), Big::from_u128(100_000_000_000_000_000_000));
        let r = Rat::from_f64(0.5);
        assert!(r.cmp_rat(&Rat::new(Big::from_u64(1), Big::from_u64(2))) == Ordering::Equal);
        assert!(Rat::from_f64(1e300).ge(&Rat::new(Big::pow10(299), Big::from_u64(1))));
    }
}
