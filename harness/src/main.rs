//! `vcheck` — property-based checks for divan.
//!
//! `vcheck run <ID> [--tier quick|thorough]`   orchestrates shards, writes evidence
//! `vcheck replay <ID> <file>`                 re-executes one saved case
//! `vcheck shard ...`                          internal: one worker process

#![allow(clippy::all)]
#![allow(dead_code)]


use std::{
    collections::BTreeMap,
    path::{Path, PathBuf},
    process::{Command, Stdio},
    time::{Duration, Instant},
};

use vcheck::{engine::{self, *}, galloc, groups, loopdrv, props};
use serde_json::{json, Value};

#[global_allocator]
static GLOBAL: galloc::Outer = galloc::Outer::new();

mod fuzzrun;

fn usage() -> ! {
    eprintln!("usage: vcheck run <ID> [--tier quick|thorough] | vcheck replay <ID> <file> | vcheck list");
    std::process::exit(2)
}

fn arg_value(args: &[String], name: &str) -> Option<String> {
    args.iter().position(|a| a == name).and_then(|i| args.get(i + 1).cloned())
}

fn main() {
    // Child mode used by CLI-route checks: behave like a divan bench binary
    // over a twin registry described by a file.
    if let Ok(path) = std::env::var("VCHECK_TWIN_CHILD") {
        galloc::set_bypass(true);
        props::twin::child_main(&path);
        return;
    }

    // Child mode of C11's cached-precision group (the caches are per process).
    if let Ok(case) = std::env::var("VCHECK_C11_CACHED_CHILD") {
        galloc::set_bypass(true);
        props::c11::cached_child(&case);
        return;
    }

    galloc::set_bypass(true);
    let args: Vec<String> = std::env::args().skip(1).collect();
    let Some(cmd) = args.first() else { usage() };
    match cmd.as_str() {
        "list" => {
            for p in props::all() {
                println!("{}", p.id);
            }
        }
        "run" => {
            let id = args.get(1).cloned().unwrap_or_else(|| usage());
            let tier = match arg_value(&args, "--tier")
                .or_else(|| std::env::var("VERIF_TIER").ok())
                .as_deref()
            {
                Some("thorough") => Tier::Thorough,
                _ => Tier::Quick,
            };
            let seed = std::env::var("VERIF_SEED")
                .ok()
                .and_then(|s| s.trim().parse::<i64>().ok())
                .unwrap_or(0);
            std::process::exit(run_parent(&id, tier, seed));
        }
        "replay" => {
            let id = args.get(1).cloned().unwrap_or_else(|| usage());
            let file = args.get(2).cloned().unwrap_or_else(|| usage());
            std::process::exit(run_replay(&id, Path::new(&file)));
        }
        "fuzz-decode" => {
            // vcheck fuzz-decode <ID> <group> <input file> <out replay file>
            let id = args.get(1).cloned().unwrap_or_else(|| usage());
            let group = args.get(2).cloned().unwrap_or_else(|| usage());
            let data = std::fs::read(args.get(3).unwrap_or_else(|| usage())).expect("read input");
            match vcheck::fuzz::decode(&id, &group, &data) {
                Some(case) => {
                    let rf = ReplayFile { property: id.clone(), group, signature: "fuzz".into(), message: "decoded from a libFuzzer input".into(), case, kind: "found".into() };
                    let out = args.get(4).cloned().unwrap_or_else(|| usage());
                    std::fs::write(&out, serde_json::to_string_pretty(&rf).unwrap()).expect("write replay");
                    println!("{out}");
                }
                None => {
                    eprintln!("input does not generate a case");
                    std::process::exit(2);
                }
            }
        }
        "twin-demo" => {
            use proptest::strategy::{Strategy, ValueTree};
            install_panic_hook();
            let seed: u64 = args.get(1).and_then(|s| s.parse().ok()).unwrap_or(1);
            let mut runner = proptest::test_runner::TestRunner::new_with_rng(
                Default::default(),
                proptest::test_runner::TestRng::from_seed(proptest::test_runner::RngAlgorithm::ChaCha, &[seed as u8; 32]),
            );
            let spec = props::twingen::spec().new_tree(&mut runner).unwrap().current();
            println!("{}", serde_json::to_string(&spec).unwrap());
            for action in ["list", "test", "bench", "list-terse"] {
                let cfg = props::twin::RunCfg { action: action.into(), ignored: if action == "bench" { 0 } else { 2 }, options: props::twin::OptSpec { sample_count: Some(2), ..Default::default() }, ..Default::default() };
                let run = props::twin::run_in_process(&spec, &cfg).unwrap();
                println!("==== {action} (panic: {:?}, {} invocations)\n{}", run.panic, run.invocations.len(), run.stdout);
            }
        }
        "fuzz" => {
            // vcheck fuzz <ID> [--seed N]: only the coverage-guided campaigns.
            let id = args.get(1).cloned().unwrap_or_else(|| usage());
            let seed = arg_value(&args, "--seed").and_then(|s| s.parse().ok()).unwrap_or(1);
            let exe = std::env::current_exe().expect("current_exe");
            let phase = fuzzrun::run(&id, seed, &exe);
            for s in &phase.stats {
                println!("{s}");
            }
            for v in &phase.violations {
                println!("violation: group={} signature={}\n  {}\n  case: {}", v.group, v.signature, v.message, v.case);
            }
            for m in &phase.notes {
                println!("note: {m}");
            }
            for m in &phase.infra {
                println!("inconclusive: {m}");
            }
            std::process::exit(if !phase.violations.is_empty() { 1 } else if !phase.infra.is_empty() { 2 } else { 0 });
        }
        "shard" => {
            let id = args.get(1).cloned().unwrap_or_else(|| usage());
            run_shard(&id, &args);
        }
        _ => usage(),
    }
}

fn find_prop(id: &str) -> &'static props::PropDef {
    props::all().iter().find(|p| p.id == id).unwrap_or_else(|| {
        eprintln!("unknown property {id}");
        std::process::exit(2)
    })
}

// ---------------------------------------------------------------------------
// Shard (worker) process

fn run_shard(id: &str, args: &[String]) {
    let prop = find_prop(id);
    let tier = if arg_value(args, "--tier").as_deref() == Some("thorough") {
        Tier::Thorough
    } else {
        Tier::Quick
    };
    let seed: i64 = arg_value(args, "--seed").and_then(|s| s.parse().ok()).unwrap_or(0);
    let shard: u64 = arg_value(args, "--shard").and_then(|s| s.parse().ok()).unwrap_or(0);
    let nshards: u64 = arg_value(args, "--nshards").and_then(|s| s.parse().ok()).unwrap_or(1);
    let out = PathBuf::from(arg_value(args, "--out").expect("--out"));
    let journal = arg_value(args, "--journal").map(PathBuf::from);

    install_panic_hook();
    let ctx = Ctx {
        property: id.to_string(),
        tier,
        seed: seed as u64,
        shard,
        nshards,
        known: load_known_findings(),
        result: Default::default(),
        journal: if prop.journal { journal } else { None },
        strict: false,
        start: Instant::now(),
    };

    // Shard 0 first re-runs every saved replay file (regression tier).
    if shard == 0 {
        for file in list_replay_files(id) {
            let Ok(text) = std::fs::read_to_string(&file) else { continue };
            let Ok(rf) = serde_json::from_str::<ReplayFile>(&text) else {
                ctx.note(format!("unparsable replay file {}", file.display()));
                continue;
            };
            let mut g = groups::Groups::replay(&ctx, &rf.group, &rf.case);
            (prop.groups)(&mut g);
            let verdict = g.take_replay_verdict();
            let mut result = ctx.result.borrow_mut();
            result.replayed += 1;
            match verdict {
                None => result.notes.push(format!(
                    "replay file {} names unknown group {}",
                    file.display(),
                    rf.group
                )),
                Some(Verdict::Pass { .. }) => {
                    if rf.kind == "known" {
                        result.notes.push(format!(
                            "known finding {} did not reproduce from {}",
                            rf.signature,
                            file.display()
                        ));
                    }
                }
                Some(Verdict::Inconclusive(why)) => result
                    .notes
                    .push(format!("replay {} inconclusive: {why}", file.display())),
                Some(Verdict::Fail { signature, message }) => {
                    drop(result);
                    if ctx.is_known(&signature).is_some() {
                        let mut result = ctx.result.borrow_mut();
                        let g = result.groups.entry(rf.group.clone()).or_default();
                        *g.known_observed.entry(signature).or_default() += 1;
                    } else {
                        ctx.result.borrow_mut().violations.push(Violation {
                            group: rf.group.clone(),
                            signature,
                            message: format!("(replay of {}) {message}", file.display()),
                            case: rf.case.clone(),
                            shrunk: true,
                        });
                    }
                }
            }
        }
    }

    let mut g = groups::Groups::run(&ctx);
    (prop.groups)(&mut g);

    let result = ctx.result.borrow();
    std::fs::write(&out, serde_json::to_vec(&*result).unwrap()).expect("write shard result");
    if let Some(j) = &ctx.journal {
        let _ = std::fs::remove_file(j);
    }
    // Skip destructors of leaked threads etc.
    std::process::exit(0);
}

// ---------------------------------------------------------------------------
// Replay

fn run_replay(id: &str, file: &Path) -> i32 {
    let prop = find_prop(id);
    install_panic_hook();
    let text = match std::fs::read_to_string(file) {
        Ok(t) => t,
        Err(e) => {
            eprintln!("cannot read {}: {e}", file.display());
            return 2;
        }
    };
    let rf: ReplayFile = match serde_json::from_str(&text) {
        Ok(r) => r,
        Err(e) => {
            eprintln!("cannot parse {}: {e}", file.display());
            return 2;
        }
    };
    let ctx = Ctx {
        property: id.to_string(),
        tier: Tier::Quick,
        seed: 0,
        shard: 0,
        nshards: 1,
        known: load_known_findings(),
        result: Default::default(),
        journal: None,
        strict: true,
        start: Instant::now(),
    };
    let mut g = groups::Groups::replay(&ctx, &rf.group, &rf.case);
    (prop.groups)(&mut g);
    match g.take_replay_verdict() {
        None => {
            eprintln!("unknown group {}", rf.group);
            2
        }
        Some(Verdict::Pass { nontrivial }) => {
            println!("PASS property={id} group={} nontrivial={nontrivial}", rf.group);
            0
        }
        Some(Verdict::Inconclusive(why)) => {
            println!("INCONCLUSIVE property={id} {why}");
            2
        }
        Some(Verdict::Fail { signature, message }) => {
            if let Some(k) = ctx.is_known(&signature) {
                println!("KNOWN-FINDING: property={id} {} [{}]", k.what, signature);
                println!("  {message}");
                0
            } else {
                println!("  signature: {signature}");
                println!("  {message}");
                println!("VIOLATION property={id} replay={}", file.display());
                1
            }
        }
    }
}

// ---------------------------------------------------------------------------
// Parent (orchestrator)

fn signal_name(status: &std::process::ExitStatus) -> Option<String> {
    use std::os::unix::process::ExitStatusExt;
    status.signal().map(|s| match s {
        libc::SIGSEGV => "SIGSEGV".to_string(),
        libc::SIGABRT => "SIGABRT".to_string(),
        libc::SIGBUS => "SIGBUS".to_string(),
        libc::SIGILL => "SIGILL".to_string(),
        libc::SIGKILL => "SIGKILL".to_string(),
        other => format!("signal{other}"),
    })
}

fn run_parent(id: &str, tier: Tier, seed: i64) -> i32 {
    let prop = find_prop(id);
    let start = Instant::now();
    let exe = std::env::current_exe().expect("current_exe");
    let work = Path::new(VERIF_DIR).join("target").join("shards");
    std::fs::create_dir_all(&work).expect("mkdir shards");
    let nshards = prop.nshards.unwrap_or(16);
    let timeout = Duration::from_secs(match tier {
        Tier::Quick => prop.timeout_s.0,
        Tier::Thorough => prop.timeout_s.1,
    });

    struct Child {
        k: u64,
        child: std::process::Child,
        out: PathBuf,
        journal: PathBuf,
        done: Option<std::process::ExitStatus>,
    }
    let mut children = Vec::new();
    for k in 0..nshards {
        let out = work.join(format!("{id}-{}-{k}.json", tier.name()));
        let journal = work.join(format!("{id}-{}-{k}.journal", tier.name()));
        let _ = std::fs::remove_file(&out);
        let _ = std::fs::remove_file(&journal);
        let child = Command::new(&exe)
            .args([
                "shard",
                id,
                "--tier",
                tier.name(),
                "--seed",
                &seed.to_string(),
                "--shard",
                &k.to_string(),
                "--nshards",
                &nshards.to_string(),
                "--out",
                out.to_str().unwrap(),
                "--journal",
                journal.to_str().unwrap(),
            ])
            .stdin(Stdio::null())
            .stdout(Stdio::null())
            .stderr(
                std::fs::File::create(work.join(format!("{id}-{}-{k}.stderr", tier.name())))
                    .map(Stdio::from)
                    .unwrap_or_else(|_| Stdio::null()),
            )
            .spawn()
            .expect("spawn shard");
        children.push(Child { k, child, out, journal, done: None });
    }

    let mut infra: Vec<String> = Vec::new();
    loop {
        let mut all_done = true;
        for c in children.iter_mut() {
            if c.done.is_none() {
                match c.child.try_wait() {
                    Ok(Some(status)) => c.done = Some(status),
                    Ok(None) => all_done = false,
                    Err(e) => {
                        infra.push(format!("shard {}: wait failed: {e}", c.k));
                        c.done = Some(std::process::ExitStatus::default());
                    }
                }
            }
        }
        if all_done {
            break;
        }
        if start.elapsed() > timeout {
            for c in children.iter_mut() {
                if c.done.is_none() {
                    let _ = c.child.kill();
                    let _ = c.child.wait();
                    infra.push(format!(
                        "shard {} exceeded the {}s watchdog (inconclusive, not a violation)",
                        c.k,
                        timeout.as_secs()
                    ));
                }
            }
            break;
        }
        std::thread::sleep(Duration::from_millis(20));
    }

    let mut results: Vec<ShardResult> = Vec::new();
    let mut violations: Vec<Violation> = Vec::new();
    for c in &children {
        let crashed = c.done.as_ref().and_then(signal_name);
        match std::fs::read(&c.out).ok().and_then(|b| serde_json::from_slice::<ShardResult>(&b).ok()) {
            Some(r) => results.push(r),
            None => {
                if c.done.as_ref().and_then(|s| s.code()) == Some(loopdrv::BUDGET_EXIT) {
                    infra.push(format!("shard {} abandoned a runaway run (event budget exhausted; inconclusive, not a violation)", c.k));
                } else if crashed.as_deref() == Some("SIGKILL") {
                    infra.push(format!("shard {} was killed (SIGKILL: out of memory or external kill; inconclusive, not a violation)", c.k));
                } else if let Some(sig) = &crashed {
                    // The process died while executing a case: that is a
                    // finding when the journal tells us which case it was.
                    if let Some(j) = std::fs::read(&c.journal)
                        .ok()
                        .and_then(|b| serde_json::from_slice::<Value>(&b).ok())
                    {
                        violations.push(Violation {
                            group: j["group"].as_str().unwrap_or("?").to_string(),
                            signature: format!("crash:{sig}"),
                            message: format!("shard {} died with {sig} while executing this case", c.k),
                            case: j["case"].clone(),
                            shrunk: false,
                        });
                    } else {
                        infra.push(format!("shard {} died with {sig} and left no journal", c.k));
                    }
                } else if c.done.is_some() && !infra.iter().any(|m| m.starts_with(&format!("shard {} ", c.k))) {
                    infra.push(format!("shard {} exited with {:?} without a result", c.k, c.done));
                }
            }
        }
        let _ = std::fs::remove_file(&c.out);
        let _ = std::fs::remove_file(&c.journal);
    }

    for r in &results {
        violations.extend(r.violations.iter().cloned());
    }

    // Coverage-guided campaigns over the same generators and oracles.
    let mut fuzz_stats: Vec<Value> = Vec::new();
    let mut fuzz_executions = 0u64;
    let mut fuzz_notes: Vec<String> = Vec::new();
    if tier == Tier::Thorough && violations.is_empty() {
        let phase = fuzzrun::run(id, seed, &exe);
        violations.extend(phase.violations);
        fuzz_notes = phase.notes;
        infra.extend(phase.infra);
        fuzz_stats = phase.stats;
        fuzz_executions = phase.executions;
    }

    // Crash signatures can be known findings too.
    let known = load_known_findings();
    let is_known = |sig: &str| {
        known.iter().find(|k| k.property == id && k.status == "known" && k.signature == sig)
    };

    // Merge.
    let distinct = merge_hashes(&results);
    let mut groups: BTreeMap<String, GroupResult> = BTreeMap::new();
    let mut replayed = 0;
    let mut notes: Vec<String> = Vec::new();
    for r in &results {
        replayed += r.replayed;
        for n in &r.notes {
            if let Some(rest) = n.strip_prefix("INFRA: ") {
                infra.push(rest.to_string());
            } else {
                notes.push(n.clone());
            }
        }
        for (name, g) in &r.groups {
            let m = groups.entry(name.clone()).or_default();
            m.evaluations += g.evaluations;
            m.nontrivial += g.nontrivial;
            m.inconclusive += g.inconclusive;
            for s in &g.samples {
                if m.samples.len() < 3 {
                    m.samples.push(s.clone());
                }
            }
            for (k, v) in &g.classes {
                *m.classes.entry(k.clone()).or_default() += v;
            }
            for (k, v) in &g.known_observed {
                *m.known_observed.entry(k.clone()).or_default() += v;
            }
            m.exhaustive = match (m.exhaustive, g.exhaustive) {
                (None, e) => e,
                (Some(a), Some(b)) => Some(a && b),
                (Some(a), None) => Some(a),
            };
        }
    }

    let mut known_seen: BTreeMap<String, u64> = BTreeMap::new();
    for g in groups.values() {
        for (k, v) in &g.known_observed {
            *known_seen.entry(k.clone()).or_default() += v;
        }
    }

    // Report violations (one replay file per distinct group+signature).
    let mut reported: Vec<(String, String)> = Vec::new();
    let mut violation_count = 0;
    for v in &violations {
        if let Some(k) = is_known(&v.signature) {
            *known_seen.entry(k.signature.clone()).or_default() += 1;
            continue;
        }
        violation_count += 1;
        let key = (v.group.clone(), v.signature.clone());
        if reported.contains(&key) {
            continue;
        }
        reported.push(key);
        let dir = replay_dir(id).join("found");
        let _ = std::fs::create_dir_all(&dir);
        let case_text = serde_json::to_string(&v.case).unwrap();
        let name = format!(
            "{}-{}-{:08x}.json",
            sig_slug(&v.group),
            sig_slug(&v.signature),
            fnv64(case_text.as_bytes()) as u32
        );
        let path = dir.join(name);
        let rf = ReplayFile {
            property: id.to_string(),
            group: v.group.clone(),
            signature: v.signature.clone(),
            message: v.message.clone(),
            case: v.case.clone(),
            kind: "found".into(),
        };
        let _ = std::fs::write(&path, serde_json::to_string_pretty(&rf).unwrap());
        println!("  group={} signature={} shrunk={}", v.group, v.signature, v.shrunk);
        println!("  {}", v.message.replace('\n', "\n  "));
        println!("VIOLATION property={id} replay={}", path.display());
    }

    for (sig, n) in &known_seen {
        if let Some(k) = is_known(sig) {
            println!("KNOWN-FINDING: property={id} {} [signature {sig}, observed {n}x]", k.what);
        }
    }
    for n in notes.iter().chain(&fuzz_notes) {
        println!("note: {n}");
    }
    for m in &infra {
        println!("inconclusive: {m}");
    }

    // Evidence.
    let evaluations: u64 = groups.values().map(|g| g.evaluations).sum();
    let distinct_total: usize = distinct.values().sum();
    let mut samples: Vec<Value> = Vec::new();
    for (name, g) in &groups {
        for s in g.samples.iter().take(2) {
            samples.push(json!({"group": name, "case": s}));
        }
    }
    let all_exhaustive = !groups.is_empty() && groups.values().all(|g| g.exhaustive == Some(true));
    let group_json: BTreeMap<String, Value> = groups
        .iter()
        .map(|(name, g)| {
            (
                name.clone(),
                json!({
                    "evaluations": g.evaluations,
                    "nontrivial": g.nontrivial,
                    "distinct_nontrivial": distinct.get(name).copied().unwrap_or(0),
                    "inconclusive": g.inconclusive,
                    "classes": g.classes,
                    "exhaustive": g.exhaustive.unwrap_or(false),
                }),
            )
        })
        .collect();
    let evidence = json!({
        "property_id": id,
        "tier": tier.name(),
        "seed": seed,
        "level": "exploration",
        "coverage": {
            "evaluations": evaluations,
            "distinct_nontrivial": distinct_total,
            "rule": prop.rule,
            "samples": samples,
            "exhaustive": all_exhaustive,
            "groups": group_json,
            "replay_files_rerun": replayed,
            "known_findings_observed": known_seen,
            "inconclusive_cases": groups.values().map(|g| g.inconclusive).sum::<u64>(),
            "infrastructure_notes": infra,
            "shards": nshards,
            "fuzz_executions": fuzz_executions,
            "fuzz_campaigns": fuzz_stats,
            "fuzz_unconfirmed_reports": fuzz_notes,
        },
        "assumptions": prop.assumptions,
        "wall_s": start.elapsed().as_secs_f64(),
        "violations": violation_count,
    });
    let evdir = Path::new(VERIF_DIR).join("evidence");
    let _ = std::fs::create_dir_all(&evdir);
    std::fs::write(
        evdir.join(format!("{id}.json")),
        serde_json::to_string_pretty(&evidence).unwrap(),
    )
    .expect("write evidence");

    println!(
        "{id} {}: {} evaluations, {} distinct non-trivial, {} violation(s), {:.1}s",
        tier.name(),
        evaluations,
        distinct_total,
        violation_count,
        start.elapsed().as_secs_f64()
    );

    if violation_count > 0 {
        1
    } else if !infra.is_empty() {
        2
    } else {
        0
    }
}
