//! Engine shared by all checks: seeding, sharding, proptest driving, shrinking,
//! replay files, known findings, evidence.

use std::{
    cell::{Cell, RefCell},
    collections::{BTreeMap, HashSet},
    fmt::Debug,
    panic::{self, AssertUnwindSafe},
    path::{Path, PathBuf},
    time::Instant,
};

use proptest::{
    strategy::Strategy,
    test_runner::{
        Config, RngAlgorithm, TestCaseError, TestError, TestRng, TestRunner,
    },
};
use serde::{de::DeserializeOwned, Deserialize, Serialize};
use serde_json::{json, Value};

pub const VERIF_DIR: &str = "/verif";

#[derive(Clone, Copy, Debug, PartialEq, Eq)]
pub enum Tier {
    Quick,
    Thorough,
}

impl Tier {
    pub fn name(self) -> &'static str {
        match self {
            Tier::Quick => "quick",
            Tier::Thorough => "thorough",
        }
    }

    /// Picks a case count by tier.
    pub fn pick(self, quick: u64, thorough: u64) -> u64 {
        match self {
            Tier::Quick => quick,
            Tier::Thorough => thorough,
        }
    }
}

/// The outcome of checking one case.
#[derive(Debug)]
pub enum Verdict {
    /// The property held; `nontrivial` per the check's stated rule.
    Pass { nontrivial: bool },
    /// The property was violated. `signature` identifies the *kind* of failure
    /// (used for known findings and file names); `message` is for humans.
    Fail { signature: String, message: String },
    /// The case could not be judged (budget, infrastructure); never a violation.
    Inconclusive(String),
}

impl Verdict {
    pub fn pass(nontrivial: bool) -> Self {
        Verdict::Pass { nontrivial }
    }

    pub fn fail(signature: impl Into<String>, message: impl Into<String>) -> Self {
        Verdict::Fail { signature: signature.into(), message: message.into() }
    }
}

#[macro_export]
macro_rules! vfail {
    ($sig:expr, $($fmt:tt)*) => {
        return $crate::engine::Verdict::Fail { signature: ($sig).to_string(), message: format!($($fmt)*) }
    };
}

#[macro_export]
macro_rules! vensure {
    ($cond:expr, $sig:expr, $($fmt:tt)*) => {
        if !($cond) {
            return $crate::engine::Verdict::Fail { signature: ($sig).to_string(), message: format!($($fmt)*) };
        }
    };
}

// ---------------------------------------------------------------------------
// Known findings

#[derive(Clone, Debug, Deserialize)]
pub struct KnownFinding {
    pub property: String,
    pub signature: String,
    pub status: String,
    #[serde(default)]
    pub commit: Option<String>,
    pub what: String,
}

pub fn load_known_findings() -> Vec<KnownFinding> {
    let path = Path::new(VERIF_DIR).join("known_findings.json");
    match std::fs::read_to_string(&path) {
        Ok(text) => serde_json::from_str::<Vec<KnownFinding>>(&text)
            .unwrap_or_else(|e| panic!("bad {}: {e}", path.display())),
        Err(_) => Vec::new(),
    }
}

// ---------------------------------------------------------------------------
// Shard results

#[derive(Clone, Debug, Default, Serialize, Deserialize)]
pub struct Violation {
    pub group: String,
    pub signature: String,
    pub message: String,
    pub case: Value,
    #[serde(default)]
    pub shrunk: bool,
}

#[derive(Clone, Debug, Default, Serialize, Deserialize)]
pub struct GroupResult {
    pub evaluations: u64,
    pub nontrivial: u64,
    /// Hashes of distinct non-trivial cases.
    pub nontrivial_hashes: Vec<u64>,
    pub inconclusive: u64,
    pub samples: Vec<Value>,
    /// Free-form classification counters.
    pub classes: BTreeMap<String, u64>,
    pub exhaustive: Option<bool>,
    /// Known findings that were re-observed: signature -> count.
    pub known_observed: BTreeMap<String, u64>,
}

#[derive(Clone, Debug, Default, Serialize, Deserialize)]
pub struct ShardResult {
    pub groups: BTreeMap<String, GroupResult>,
    pub violations: Vec<Violation>,
    pub replayed: u64,
    pub notes: Vec<String>,
}

// ---------------------------------------------------------------------------
// Per-process context

pub struct Ctx {
    pub property: String,
    pub tier: Tier,
    pub seed: u64,
    pub shard: u64,
    pub nshards: u64,
    pub known: Vec<KnownFinding>,
    pub result: RefCell<ShardResult>,
    /// If set, the JSON of the case being executed is written here first, so
    /// that a crash of the process still yields a reproducible input.
    pub journal: Option<PathBuf>,
    /// Replay mode: do not consult known findings for suppression.
    pub strict: bool,
    pub start: Instant,
}

thread_local! {
    static CLASS_SINK: RefCell<Vec<String>> = const { RefCell::new(Vec::new()) };
    static LAST_PANIC: RefCell<Option<String>> = const { RefCell::new(None) };
    static QUIET_PANICS: Cell<bool> = const { Cell::new(true) };
    static CATCH_DEPTH: Cell<u32> = const { Cell::new(0) };
}

/// Labels the case being checked (shows up in the evidence distribution).
pub fn classify(label: impl Into<String>) {
    CLASS_SINK.with(|s| s.borrow_mut().push(label.into()));
}

pub fn install_panic_hook() {
    let default = panic::take_hook();
    panic::set_hook(Box::new(move |info| {
        let msg = if let Some(s) = info.payload().downcast_ref::<&str>() {
            s.to_string()
        } else if let Some(s) = info.payload().downcast_ref::<String>() {
            s.clone()
        } else {
            "<non-string panic>".to_string()
        };
        let loc = info
            .location()
            .map(|l| format!("{}:{}", l.file(), l.line()))
            .unwrap_or_default();
        let _ = LAST_PANIC.try_with(|p| {
            if let Ok(mut p) = p.try_borrow_mut() {
                *p = Some(format!("{msg} @ {loc}"));
            }
        });
        let expected = CATCH_DEPTH.try_with(|d| d.get() > 0).unwrap_or(false) || msg.contains("scripted panic") || msg.contains("task panic") || msg.contains("payload destructor panics") || msg.contains("runaway run abandoned");
        if !QUIET_PANICS.try_with(|q| q.get()).unwrap_or(true) || !expected {
            default(info);
        }
    }));
}

pub fn set_quiet_panics(quiet: bool) {
    QUIET_PANICS.with(|q| q.set(quiet));
}

/// Runs `f`, converting a panic into `Err(message @ location)`.
pub fn catch<R>(f: impl FnOnce() -> R) -> Result<R, String> {
    LAST_PANIC.with(|p| *p.borrow_mut() = None);
    CATCH_DEPTH.with(|d| d.set(d.get() + 1));
    let caught = panic::catch_unwind(AssertUnwindSafe(f));
    CATCH_DEPTH.with(|d| d.set(d.get().saturating_sub(1)));
    match caught {
        Ok(r) => Ok(r),
        Err(payload) => {
            let from_hook = LAST_PANIC.with(|p| p.borrow_mut().take());
            let msg = from_hook.unwrap_or_else(|| {
                if let Some(s) = payload.downcast_ref::<&str>() {
                    s.to_string()
                } else if let Some(s) = payload.downcast_ref::<String>() {
                    s.clone()
                } else {
                    "<non-string panic>".to_string()
                }
            });
            // Dropping a payload may itself run user code; keep it simple.
            std::mem::forget(payload);
            Err(msg)
        }
    }
}

pub fn fnv64(bytes: &[u8]) -> u64 {
    let mut h: u64 = 0xcbf29ce484222325;
    for &b in bytes {
        h ^= b as u64;
        h = h.wrapping_mul(0x100000001b3);
    }
    h
}

pub fn splitmix(mut x: u64) -> u64 {
    x = x.wrapping_add(0x9E3779B97F4A7C15);
    let mut z = x;
    z = (z ^ (z >> 30)).wrapping_mul(0xBF58476D1CE4E5B9);
    z = (z ^ (z >> 27)).wrapping_mul(0x94D049BB133111EB);
    z ^ (z >> 31)
}

/// Normalises a signature so that it is usable in file names.
pub fn sig_slug(sig: &str) -> String {
    let mut s: String = sig
        .chars()
        .map(|c| if c.is_ascii_alphanumeric() || c == '-' || c == '_' { c } else { '_' })
        .collect();
    s.truncate(60);
    s
}

const MAX_SAMPLES: usize = 4;
const MAX_HASHES_PER_GROUP: usize = 4_000_000;

impl Ctx {
    pub fn rng_seed(&self, group: &str) -> [u8; 32] {
        let mut x = splitmix(self.seed ^ fnv64(self.property.as_bytes()));
        x = splitmix(x ^ fnv64(group.as_bytes()));
        x = splitmix(x ^ self.shard.wrapping_mul(0x9E3779B97F4A7C15));
        let mut out = [0u8; 32];
        for chunk in out.chunks_mut(8) {
            x = splitmix(x);
            chunk.copy_from_slice(&x.to_le_bytes());
        }
        out
    }

    /// This shard's part of `total` cases.
    pub fn share(&self, total: u64) -> u64 {
        let base = total / self.nshards;
        let extra = if self.shard < total % self.nshards { 1 } else { 0 };
        base + extra
    }

    pub fn is_known(&self, signature: &str) -> Option<&KnownFinding> {
        self.known.iter().find(|k| {
            k.property == self.property
                && k.status == "known"
                && k.signature == signature
        })
    }

    pub fn note(&self, note: impl Into<String>) {
        self.result.borrow_mut().notes.push(note.into());
    }

    fn journal_case<C: Serialize>(&self, group: &str, case: &C) {
        if let Some(path) = &self.journal {
            let v = json!({"group": group, "case": case});
            let _ = std::fs::write(path, serde_json::to_vec(&v).unwrap());
        }
    }

    /// Records the outcome of one evaluated case. Returns `Err(signature)` if
    /// the case is an (unknown) violation.
    fn record<C: Serialize>(
        &self,
        group: &str,
        case: &C,
        verdict: Verdict,
        frozen: bool,
    ) -> Result<(), (String, String)> {
        let classes = CLASS_SINK.with(|s| std::mem::take(&mut *s.borrow_mut()));
        let mut result = self.result.borrow_mut();
        let g = result.groups.entry(group.to_string()).or_default();
        match verdict {
            Verdict::Pass { nontrivial } => {
                if !frozen {
                    g.evaluations += 1;
                    for c in classes {
                        *g.classes.entry(c).or_default() += 1;
                    }
                    if nontrivial {
                        g.nontrivial += 1;
                        let text = serde_json::to_string(case).unwrap();
                        if g.nontrivial_hashes.len() < MAX_HASHES_PER_GROUP {
                            g.nontrivial_hashes.push(fnv64(text.as_bytes()));
                        }
                        if g.samples.len() < MAX_SAMPLES {
                            g.samples.push(serde_json::from_str(&text).unwrap());
                        }
                    }
                }
                Ok(())
            }
            Verdict::Inconclusive(why) => {
                if !frozen {
                    g.evaluations += 1;
                    g.inconclusive += 1;
                    *g.classes.entry(format!("inconclusive:{why}")).or_default() += 1;
                }
                Ok(())
            }
            Verdict::Fail { signature, message } => {
                if !frozen {
                    g.evaluations += 1;
                }
                if !self.strict && self.is_known(&signature).is_some() {
                    if !frozen {
                        *g.known_observed.entry(signature).or_default() += 1;
                    }
                    return Ok(());
                }
                Err((signature, message))
            }
        }
    }

    /// Drives `check` with `cases` generated values; on failure shrinks and
    /// records a violation. Returns `true` if no violation was found.
    pub fn run_prop<C, S>(
        &self,
        group: &str,
        cases: u64,
        strategy: S,
        check: impl Fn(&C) -> Verdict,
    ) -> bool
    where
        C: Debug + Serialize + Clone,
        S: Strategy<Value = C>,
    {
        let cases = self.share(cases);
        self.result.borrow_mut().groups.entry(group.to_string()).or_default();
        if cases == 0 {
            return true;
        }
        let config = Config {
            cases: cases.min(u32::MAX as u64) as u32,
            failure_persistence: None,
            max_shrink_iters: 4000,
            max_global_rejects: 1 << 30,
            max_local_rejects: 1 << 30,
            ..Config::default()
        };
        let rng = TestRng::from_seed(RngAlgorithm::ChaCha, &self.rng_seed(group));
        let mut runner = TestRunner::new_with_rng(config, rng);

        let frozen = Cell::new(false);
        let last_fail: RefCell<Option<(String, String)>> = RefCell::new(None);

        let outcome = runner.run(&strategy, |case| {
            self.journal_case(group, &case);
            let verdict = match catch(|| check(&case)) {
                Ok(v) => v,
                Err(panic_msg) => Verdict::Fail {
                    signature: "harness-panic".into(),
                    message: format!("check panicked: {panic_msg}"),
                },
            };
            match self.record(group, &case, verdict, frozen.get()) {
                Ok(()) => Ok(()),
                Err((sig, msg)) => {
                    frozen.set(true);
                    *last_fail.borrow_mut() = Some((sig.clone(), msg));
                    Err(TestCaseError::fail(sig))
                }
            }
        });

        match outcome {
            Ok(()) => true,
            Err(TestError::Fail(_reason, minimal)) => {
                // Re-evaluate the minimal case to get its own signature/message.
                let verdict = match catch(|| check(&minimal)) {
                    Ok(v) => v,
                    Err(panic_msg) => Verdict::Fail {
                        signature: "harness-panic".into(),
                        message: format!("check panicked: {panic_msg}"),
                    },
                };
                let _ = CLASS_SINK.with(|s| std::mem::take(&mut *s.borrow_mut()));
                let (signature, message) = match verdict {
                    Verdict::Fail { signature, message } => (signature, message),
                    _ => last_fail
                        .borrow()
                        .clone()
                        .unwrap_or(("unstable".into(), "failure did not reproduce on the shrunk case".into())),
                };
                self.result.borrow_mut().violations.push(Violation {
                    group: group.to_string(),
                    signature,
                    message,
                    case: serde_json::to_value(&minimal).unwrap(),
                    shrunk: true,
                });
                false
            }
            Err(TestError::Abort(reason)) => {
                self.note(format!("group {group}: proptest aborted: {reason}"));
                true
            }
        }
    }

    /// Evaluates explicitly enumerated cases (small-scope enumeration). No
    /// shrinking: the first failing case is reported as is. Cases are dealt
    /// round-robin to shards.
    pub fn run_enum<C>(
        &self,
        group: &str,
        cases: impl IntoIterator<Item = C>,
        exhaustive: bool,
        check: impl Fn(&C) -> Verdict,
    ) -> bool
    where
        C: Debug + Serialize + Clone,
    {
        self.run_enum_opt(group, cases, exhaustive, true, check)
    }

    /// `sharded = false`: this process evaluates every case (for groups that
    /// only one shard runs).
    pub fn run_enum_opt<C>(
        &self,
        group: &str,
        cases: impl IntoIterator<Item = C>,
        exhaustive: bool,
        sharded: bool,
        check: impl Fn(&C) -> Verdict,
    ) -> bool
    where
        C: Debug + Serialize + Clone,
    {
        self.result.borrow_mut().groups.entry(group.to_string()).or_default();
        let mut ok = true;
        for (i, case) in cases.into_iter().enumerate() {
            if sharded && (i as u64) % self.nshards != self.shard {
                continue;
            }
            self.journal_case(group, &case);
            let verdict = match catch(|| check(&case)) {
                Ok(v) => v,
                Err(panic_msg) => Verdict::Fail {
                    signature: "harness-panic".into(),
                    message: format!("check panicked: {panic_msg}"),
                },
            };
            if let Err((signature, message)) = self.record(group, &case, verdict, false) {
                let mut result = self.result.borrow_mut();
                // Report each distinct signature once per group.
                if !result
                    .violations
                    .iter()
                    .any(|v| v.group == group && v.signature == signature)
                {
                    result.violations.push(Violation {
                        group: group.to_string(),
                        signature,
                        message,
                        case: serde_json::to_value(&case).unwrap(),
                        shrunk: false,
                    });
                }
                ok = false;
            }
        }
        if exhaustive {
            self.result.borrow_mut().groups.get_mut(group).unwrap().exhaustive = Some(true);
        }
        ok
    }

    /// Replays one serialized case through `check`.
    pub fn replay_case<C>(
        &self,
        group: &str,
        case: &Value,
        check: impl Fn(&C) -> Verdict,
    ) -> Verdict
    where
        C: DeserializeOwned + Debug,
    {
        let _ = group;
        let case: C = match serde_json::from_value(case.clone()) {
            Ok(c) => c,
            Err(e) => return Verdict::Inconclusive(format!("replay case does not parse: {e}")),
        };
        let v = match catch(|| check(&case)) {
            Ok(v) => v,
            Err(panic_msg) => Verdict::Fail {
                signature: "harness-panic".into(),
                message: format!("check panicked: {panic_msg}"),
            },
        };
        let _ = CLASS_SINK.with(|s| std::mem::take(&mut *s.borrow_mut()));
        v
    }
}

/// A replay file on disk.
#[derive(Clone, Debug, Serialize, Deserialize)]
pub struct ReplayFile {
    pub property: String,
    pub group: String,
    #[serde(default)]
    pub signature: String,
    #[serde(default)]
    pub message: String,
    pub case: Value,
    /// "golden" cases must pass; "found" cases record an earlier violation.
    #[serde(default)]
    pub kind: String,
}

pub fn replay_dir(property: &str) -> PathBuf {
    Path::new(VERIF_DIR).join("replay").join(property)
}

pub fn list_replay_files(property: &str) -> Vec<PathBuf> {
    let mut out = Vec::new();
    for sub in ["golden", "found"] {
        let dir = replay_dir(property).join(sub);
        if let Ok(rd) = std::fs::read_dir(&dir) {
            for e in rd.flatten() {
                let p = e.path();
                if p.extension().map(|e| e == "json").unwrap_or(false) {
                    out.push(p);
                }
            }
        }
    }
    out.sort();
    out
}

pub fn merge_hashes(results: &[ShardResult]) -> BTreeMap<String, usize> {
    let mut sets: BTreeMap<String, HashSet<u64>> = BTreeMap::new();
    for r in results {
        for (name, g) in &r.groups {
            sets.entry(name.clone()).or_default().extend(g.nontrivial_hashes.iter().copied());
        }
    }
    sets.into_iter().map(|(k, v)| (k, v.len())).collect()
}
