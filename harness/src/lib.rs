//! `vcheck` library: engine, drivers, generators and oracles (used by the binary and by the fuzz targets).

#![allow(clippy::all)]
#![allow(dead_code)]

pub mod big;
pub mod capture;
pub mod engine;
pub mod fuzz;
pub mod galloc;
pub mod groups;
pub mod loopdrv;
pub mod loopmodel;
pub mod props;
pub mod trace;
pub mod util;
