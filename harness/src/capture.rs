//! Captures what the code under test prints to the process's stdout (fd 1).

use std::{
    fs::File,
    io::{Read, Seek, SeekFrom, Write},
    os::fd::{AsRawFd, FromRawFd},
    panic::{self, AssertUnwindSafe},
};

thread_local! {
    static MEMFD: std::cell::RefCell<Option<File>> = const { std::cell::RefCell::new(None) };
}

fn memfd() -> File {
    MEMFD.with(|m| {
        let mut m = m.borrow_mut();
        if m.is_none() {
            let fd = unsafe { libc::memfd_create(b"vcheck-stdout\0".as_ptr().cast(), 0) };
            assert!(fd >= 0, "memfd_create failed");
            *m = Some(unsafe { File::from_raw_fd(fd) });
        }
        m.as_ref().unwrap().try_clone().expect("dup memfd")
    })
}

/// Runs `f` with fd 1 redirected into memory; returns `f`'s result (or the
/// panic message) and everything written to stdout meanwhile.
pub fn stdout<R>(f: impl FnOnce() -> R) -> (Result<R, String>, String) {
    let mut file = memfd();
    file.set_len(0).unwrap();
    file.seek(SeekFrom::Start(0)).unwrap();
    let _ = std::io::stdout().flush();
    let saved = unsafe { libc::dup(1) };
    assert!(saved >= 0);
    unsafe { libc::dup2(file.as_raw_fd(), 1) };
    let result = crate::engine::catch(AssertUnwindSafe(f));
    let _ = std::io::stdout().flush();
    unsafe {
        libc::dup2(saved, 1);
        libc::close(saved);
    }
    let mut text = String::new();
    file.seek(SeekFrom::Start(0)).unwrap();
    let mut bytes = Vec::new();
    file.read_to_end(&mut bytes).unwrap();
    text.push_str(&String::from_utf8_lossy(&bytes));
    let _ = panic::take_hook; // keep import used
    (result, text)
}
