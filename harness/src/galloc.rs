//! Global allocator of the harness binary: forwards to divan's
//! `AllocProfiler<System>` except while the current thread is doing harness
//! bookkeeping (`bypass`), so that the profiler's tallies see exactly the
//! allocator operations of divan itself and of the scripted user closures.

use std::{
    alloc::{GlobalAlloc, Layout, System},
    cell::Cell,
};

use divan::AllocProfiler;

thread_local! {
    /// > 0: go straight to `System`. Threads not created by the harness (pool
    /// workers) start at 0, i.e. profiled.
    static BYPASS: Cell<u32> = const { Cell::new(0) };
}

thread_local! {
    /// While set, every call that reaches the global allocator on this thread
    /// is counted (used to detect allocation / re-entry from inside a wrapper
    /// call).
    static WATCH: Cell<bool> = const { Cell::new(false) };
    static WATCH_HITS: Cell<u32> = const { Cell::new(0) };
}

/// Runs `f` while counting global-allocator calls made by this thread.
pub fn watch<R>(f: impl FnOnce() -> R) -> (R, u32) {
    WATCH_HITS.with(|h| h.set(0));
    WATCH.with(|w| w.set(true));
    let r = f();
    WATCH.with(|w| w.set(false));
    (r, WATCH_HITS.with(|h| h.get()))
}

/// Suspends [`watch`] for harness-side bookkeeping inside a watched region.
pub fn unwatched<R>(f: impl FnOnce() -> R) -> R {
    let prev = WATCH.try_with(|w| w.replace(false)).unwrap_or(false);
    let r = f();
    let _ = WATCH.try_with(|w| w.set(prev));
    r
}

#[inline]
fn note_call() {
    let _ = WATCH.try_with(|w| {
        if w.get() {
            let _ = WATCH_HITS.try_with(|h| h.set(h.get() + 1));
        }
    });
}

pub struct Outer {
    profiled: AllocProfiler<System>,
}

impl Outer {
    pub const fn new() -> Self {
        Self { profiled: AllocProfiler::system() }
    }
}

/// > 0: every thread goes straight to `System`, threads that have not set
/// their own flag yet included (a new thread's start-up allocations would
/// otherwise be the first use of the profiler on that thread).
static BYPASS_ALL: std::sync::atomic::AtomicUsize = std::sync::atomic::AtomicUsize::new(0);

/// Runs `f` with the profiler out of the loop on every thread.
pub fn bypass_all<R>(f: impl FnOnce() -> R) -> R {
    use std::sync::atomic::Ordering::SeqCst;
    BYPASS_ALL.fetch_add(1, SeqCst);
    let r = f();
    BYPASS_ALL.fetch_sub(1, SeqCst);
    r
}

#[inline]
fn bypassed() -> bool {
    BYPASS_ALL.load(std::sync::atomic::Ordering::Relaxed) > 0 || BYPASS.try_with(|b| b.get() > 0).unwrap_or(true)
}

/// Sets the base state of the current thread.
pub fn set_bypass(on: bool) {
    BYPASS.with(|b| b.set(if on { 1 } else { 0 }));
}

/// Runs `f` with harness bookkeeping hidden from the profiler.
#[inline]
pub fn internal<R>(f: impl FnOnce() -> R) -> R {
    let prev = BYPASS.try_with(|b| {
        let p = b.get();
        b.set(p + 1);
        p
    });
    let r = f();
    if let Ok(p) = prev {
        let _ = BYPASS.try_with(|b| b.set(p));
    }
    r
}

/// `internal` as an enter/exit pair (for callbacks).
pub fn internal_enter() {
    let _ = BYPASS.try_with(|b| b.set(b.get() + 1));
}

pub fn internal_exit() {
    let _ = BYPASS.try_with(|b| b.set(b.get().saturating_sub(1)));
}

/// Runs `f` with the profiler seeing this thread's allocations.
#[inline]
pub fn profiled<R>(f: impl FnOnce() -> R) -> R {
    let prev = BYPASS.with(|b| b.replace(0));
    struct Restore(u32);
    impl Drop for Restore {
        fn drop(&mut self) {
            let _ = BYPASS.try_with(|b| b.set(self.0));
        }
    }
    let _restore = Restore(prev);
    f()
}

unsafe impl GlobalAlloc for Outer {
    unsafe fn alloc(&self, layout: Layout) -> *mut u8 {
        note_call();
        if bypassed() {
            System.alloc(layout)
        } else {
            self.profiled.alloc(layout)
        }
    }

    unsafe fn alloc_zeroed(&self, layout: Layout) -> *mut u8 {
        note_call();
        if bypassed() {
            System.alloc_zeroed(layout)
        } else {
            self.profiled.alloc_zeroed(layout)
        }
    }

    unsafe fn realloc(&self, ptr: *mut u8, layout: Layout, new_size: usize) -> *mut u8 {
        note_call();
        if bypassed() {
            System.realloc(ptr, layout, new_size)
        } else {
            self.profiled.realloc(ptr, layout, new_size)
        }
    }

    unsafe fn dealloc(&self, ptr: *mut u8, layout: Layout) {
        note_call();
        if bypassed() {
            System.dealloc(ptr, layout)
        } else {
            self.profiled.dealloc(ptr, layout)
        }
    }
}
