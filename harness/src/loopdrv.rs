//! Drives divan's real sample loop with instrumented closures, instrumented
//! values and a scripted (virtual) timestamp counter, and returns the event
//! log per logical thread. Oracles for C01–C05, C08, C19 are trace checkers
//! over this log.

use std::{
    alloc::Layout,
    cell::{Cell, UnsafeCell},
    sync::atomic::{AtomicPtr, AtomicU64, Ordering::SeqCst},
    time::Duration,
};

use divan::{
    counter::{BytesCount, CharsCount, CyclesCount, ItemsCount},
    Bencher,
    __private::BenchOptions,
    __verif::{
        bench::{Ctx as BenchCtx, RunView, StatsView, VAction},
        clock,
    },
};
use serde::{Deserialize, Serialize};

use crate::{engine::catch, galloc};

pub const MAX_THREADS: usize = 16;

/// When set, bench-mode runs are also painted (captured in `LoopOutcome::painted`).
pub static PAINT: std::sync::atomic::AtomicBool = std::sync::atomic::AtomicBool::new(false);

// ---------------------------------------------------------------------------
// Case description

#[derive(Clone, Copy, Debug, PartialEq, Eq, Serialize, Deserialize)]
pub enum Entry {
    Bench,
    BenchValues,
    BenchRefs,
    BenchLocal,
    BenchLocalValues,
    BenchLocalRefs,
}

impl Entry {
    pub const ALL: [Entry; 6] = [Entry::Bench, Entry::BenchValues, Entry::BenchRefs, Entry::BenchLocal, Entry::BenchLocalValues, Entry::BenchLocalRefs];

    pub fn is_local(self) -> bool {
        matches!(self, Entry::BenchLocal | Entry::BenchLocalValues | Entry::BenchLocalRefs)
    }

    pub fn has_inputs(self) -> bool {
        !matches!(self, Entry::Bench | Entry::BenchLocal)
    }

    pub fn by_ref(self) -> bool {
        matches!(self, Entry::BenchRefs | Entry::BenchLocalRefs)
    }
}

/// Value shapes: zero-sized or not, with or without destructor.
#[derive(Clone, Copy, Debug, PartialEq, Eq, Serialize, Deserialize)]
pub enum ShapeKind {
    Unit,
    ZstDrop,
    Plain,
    Owned,
}

impl ShapeKind {
    pub const ALL: [ShapeKind; 4] = [ShapeKind::Unit, ShapeKind::ZstDrop, ShapeKind::Plain, ShapeKind::Owned];

    pub fn is_zst(self) -> bool {
        matches!(self, ShapeKind::Unit | ShapeKind::ZstDrop)
    }

    pub fn has_drop(self) -> bool {
        matches!(self, ShapeKind::ZstDrop | ShapeKind::Owned)
    }
}

#[derive(Clone, Debug, PartialEq, Eq, Serialize, Deserialize)]
pub enum CostModel {
    Const(u64),
    /// base + step * (call index on this thread)
    Growing { base: u64, step: u64 },
    /// cyclic table indexed by the call index on this thread
    Table(Vec<u64>),
    /// zero for the first `zero_calls` calls of a thread, then `then`
    ZeroThen { zero_calls: u64, then: u64 },
}

impl CostModel {
    pub fn at(&self, call_index: u64) -> u64 {
        match self {
            CostModel::Const(c) => *c,
            CostModel::Growing { base, step } => base.saturating_add(step.saturating_mul(call_index)),
            CostModel::Table(t) => {
                if t.is_empty() {
                    0
                } else {
                    t[(call_index % t.len() as u64) as usize]
                }
            }
            CostModel::ZeroThen { zero_calls, then } => {
                if call_index < *zero_calls {
                    0
                } else {
                    *then
                }
            }
        }
    }
}

#[derive(Clone, Debug, PartialEq, Eq, Serialize, Deserialize)]
pub struct Costs {
    pub gen: u64,
    pub count: u64,
    pub call: CostModel,
    pub drop_out: u64,
    pub drop_in: u64,
    pub read: u64,
    /// Extra ticks added per thread index to each call (lopsided threads).
    pub per_thread_skew: u64,
}

impl Default for Costs {
    fn default() -> Self {
        Costs { gen: 0, count: 0, call: CostModel::Const(1), drop_out: 0, drop_in: 0, read: 0, per_thread_skew: 0 }
    }
}

#[derive(Clone, Copy, Debug, PartialEq, Eq, Serialize, Deserialize)]
pub enum Role {
    Gen,
    Counter,
    Benched,
    DropOut,
    DropIn,
}

#[derive(Clone, Copy, Debug, PartialEq, Eq, Serialize, Deserialize)]
pub struct PanicPlan {
    pub role: Role,
    /// Logical thread on which to panic (`None`: every thread).
    pub thread: Option<u8>,
    /// Panic at this occurrence (0-based) of the role on that thread.
    pub at: u32,
}

#[derive(Clone, Copy, Debug, PartialEq, Eq, Serialize, Deserialize)]
pub enum AllocStep {
    Alloc(u32),
    AllocZeroed(u32),
    /// Reallocate the most recent live block of this thread to the new size.
    Realloc(u32),
    /// Free the most recent live block of this thread.
    Dealloc,
}

#[derive(Clone, Debug, Default, PartialEq, Eq, Serialize, Deserialize)]
pub struct AllocScripts {
    /// If non-zero, the `benched` script only runs during the first N calls
    /// of each thread (lazy initialisation, amortised growth).
    #[serde(default)]
    pub benched_first_calls: u32,
    /// If set, the sizes of the `benched` script are multiplied by
    /// 1 + (call index mod 5), so that samples differ.
    #[serde(default)]
    pub benched_vary: bool,
    /// If set, all sizes are additionally multiplied by 1 + logical thread id,
    /// so that one thread's operations cannot be mistaken for another's.
    #[serde(default)]
    pub vary_by_thread: bool,
    /// If non-zero, the `benched` script only runs in calls whose index mod 16
    /// has its bit set (samples without any allocation *before* samples with
    /// some: the recorded tallies are sparse in every pattern).
    #[serde(default)]
    pub benched_call_mask: u16,
    /// If non-zero, the `benched` script only runs on logical threads whose
    /// id mod 8 has its bit set.
    #[serde(default)]
    pub benched_thread_mask: u8,
    pub gen: Vec<AllocStep>,
    pub benched: Vec<AllocStep>,
    pub drop_out: Vec<AllocStep>,
    pub drop_in: Vec<AllocStep>,
    pub counter: Vec<AllocStep>,
}

#[derive(Clone, Debug, PartialEq, Eq, Serialize, Deserialize)]
pub struct LoopCase {
    pub entry: Entry,
    pub input: ShapeKind,
    pub output: ShapeKind,
    pub test_mode: bool,
    pub threads: u8,
    pub sample_count: Option<u32>,
    pub sample_size: Option<u32>,
    /// Picoseconds would not fit a `Duration` field in JSON nicely: (secs, nanos).
    pub min_time: Option<(u64, u32)>,
    pub max_time: Option<(u64, u32)>,
    pub skip_ext_time: Option<bool>,
    pub frequency: u64,
    /// Timer precision override in picoseconds.
    pub precision_ps: u64,
    /// Overheads override (sample loop, alloc, dealloc, realloc) in ps.
    pub overheads_ps: [u64; 4],
    pub clock0: u64,
    pub costs: Costs,
    /// Which input counters to install (bytes, chars, cycles, items).
    pub input_counters: [bool; 4],
    /// Constant counters given to `Bencher::counter`.
    pub const_counters: [Option<u64>; 4],
    pub allocs: AllocScripts,
    pub panic: Option<PanicPlan>,
    /// Under the scheduler: explicit yield points inside each generator /
    /// benchmarked call / destructor (no effect on real threads).
    #[serde(default)]
    pub yields: u8,
    /// Install the constant counters *before* the input counters, so that an
    /// input counter replaces a constant counter of its kind (as when the
    /// constant comes from an attribute, the builder or the command line).
    #[serde(default)]
    pub const_first: bool,
}

impl LoopCase {
    pub fn basic(entry: Entry, input: ShapeKind, output: ShapeKind) -> Self {
        LoopCase {
            entry,
            input,
            output,
            test_mode: false,
            threads: 1,
            sample_count: Some(3),
            sample_size: Some(2),
            min_time: None,
            max_time: None,
            skip_ext_time: None,
            frequency: 1_000_000_000,
            precision_ps: 1000,
            overheads_ps: [0; 4],
            clock0: 1000,
            costs: Costs::default(),
            input_counters: [false; 4],
            const_counters: [None; 4],
            allocs: AllocScripts::default(),
            panic: None,
            yields: 0,
            const_first: false,
        }
    }

    /// The thread count the loop is expected to use.
    pub fn effective_threads(&self) -> usize {
        if self.entry.is_local() {
            1
        } else {
            self.threads.max(1) as usize
        }
    }

    pub fn options(&self) -> BenchOptions<'static> {
        BenchOptions {
            sample_count: self.sample_count,
            sample_size: self.sample_size,
            min_time: self.min_time.map(|(s, n)| Duration::new(s, n % 1_000_000_000)),
            max_time: self.max_time.map(|(s, n)| Duration::new(s, n % 1_000_000_000)),
            skip_ext_time: self.skip_ext_time,
            ..BenchOptions::default()
        }
    }
}

// ---------------------------------------------------------------------------
// Events and the world

#[derive(Clone, Copy, Debug, PartialEq, Eq, Serialize)]
pub enum Ev {
    Gen { id: u64 },
    Count { kind: u8, id: u64 },
    Call { id: u64 },
    CallRet { id: u64 },
    /// A by-value input was consumed (dropped) by the benchmarked function.
    Consumed { id: u64 },
    DropOut { id: u64 },
    DropIn { id: u64 },
    TsStart { v: u64 },
    TsEnd { v: u64 },
    /// op: 0 grow, 1 shrink(realloc to smaller), 2 alloc, 3 dealloc, 4 equal-size realloc
    AllocOp { op: u8, old: u64, new: u64 },
    Panic { role: Role },
    /// The thread's allocation tally was cleared.
    TallyClear,
}

#[derive(Clone, Copy, Debug, Serialize)]
pub struct Event {
    pub ev: Ev,
    /// Global order stamp (meaningful across threads only under the scheduler).
    pub seq: u64,
    /// The thread's virtual clock when the event was logged.
    pub clock: u64,
}

pub const ZST_ID: u64 = u64::MAX;

struct ThreadState {
    log: Vec<Event>,
    clock: u64,
    next_id: u64,
    calls: u64,
    role_counts: [u32; 5],
    blocks: Vec<(*mut u8, Layout)>,
    /// The input id of the call in progress (for output ids).
    current_call: u64,
    used: bool,
    /// End readings taken so far on this thread.
    windows_done: u64,
    /// Calls since the last start reading.
    calls_since_start: u64,
}

struct World {
    case: LoopCase,
    threads: Vec<UnsafeCell<ThreadState>>,
    seq: AtomicU64,
    stray_events: AtomicU64,
    /// `u64::MAX`, or the round (number of end readings) from which on every
    /// thread panics at its first call (orderly abandonment of a runaway).
    abandon_at_window: AtomicU64,
}

unsafe impl Sync for World {}

static WORLD: AtomicPtr<World> = AtomicPtr::new(std::ptr::null_mut());

thread_local! {
    /// Logical thread id: 0 = the thread that drives the loop, k = pool worker
    /// `divan-k`, u32::MAX = not yet determined.
    static LTID: Cell<u32> = const { Cell::new(u32::MAX) };
}

fn ltid() -> usize {
    LTID.with(|l| {
        if l.get() == u32::MAX {
            let id = std::thread::current()
                .name()
                .and_then(|n| n.strip_prefix("divan-"))
                .and_then(|k| k.parse::<u32>().ok())
                .unwrap_or(MAX_THREADS as u32 - 1);
            l.set(id);
        }
        l.get() as usize
    })
}

fn with_state<R>(f: impl FnOnce(&World, &mut ThreadState, usize) -> R) -> Option<R> {
    let w = WORLD.load(SeqCst);
    if w.is_null() {
        return None;
    }
    let world = unsafe { &*w };
    let t = ltid();
    if t >= world.threads.len() {
        world.stray_events.fetch_add(1, SeqCst);
        return None;
    }
    // Only the logical thread itself touches its slot.
    let state = unsafe { &mut *world.threads[t].get() };
    state.used = true;
    Some(f(world, state, t))
}

/// Events per thread after which a run is abandoned as a runaway (the process
/// exits with `BUDGET_EXIT`; the orchestrator reports it as inconclusive).
pub const LOG_CAP: usize = 3_000_000;
pub const BUDGET_EXIT: i32 = 87;
/// Events per thread after which a run is wound down in an orderly way: two
/// rounds later every thread panics at its first call of the round (all
/// threads in the same phase, so nobody is left waiting at a barrier). The
/// oracle then judges the completed rounds.
pub const SOFT_CAP: usize = 150_000;

fn log(ev: Ev) {
    galloc::internal(|| {
        with_state(|w, st, _| {
            let seq = w.seq.fetch_add(1, SeqCst);
            if st.log.len() >= SOFT_CAP && w.abandon_at_window.load(SeqCst) == u64::MAX {
                w.abandon_at_window.store(st.windows_done + 2, SeqCst);
            }
            if st.log.len() >= LOG_CAP {
                eprintln!("vcheck: event budget exhausted (runaway run); case: {:?}", w.case);
                std::process::exit(BUDGET_EXIT);
            }
            st.log.push(Event { ev, seq, clock: st.clock });
        });
    });
}

fn advance(ticks: u64) {
    with_state(|_, st, _| st.clock = st.clock.wrapping_add(ticks));
}

fn clock_reader(is_end: bool) -> u64 {
    galloc::internal(|| {
        with_state(|w, st, _| {
            let v = st.clock;
            let seq = w.seq.fetch_add(1, SeqCst);
            st.log.push(Event { ev: if is_end { Ev::TsEnd { v } } else { Ev::TsStart { v } }, seq, clock: v });
            if is_end {
                st.windows_done += 1;
            } else {
                st.calls_since_start = 0;
            }
            st.clock = st.clock.wrapping_add(w.case.costs.read);
            v
        })
        .unwrap_or(0)
    })
}

/// Explicit yield points (only meaningful under the scheduler).
fn yields() {
    let w = WORLD.load(SeqCst);
    if w.is_null() {
        return;
    }
    let n = unsafe { &*w }.case.yields;
    for _ in 0..n {
        divan::__verif::sched::yield_now();
    }
}

/// Counts an occurrence of `role` on this thread and panics if planned.
fn maybe_panic(role: Role) {
    let fire = with_state(|w, st, t| {
        let n = st.role_counts[role as usize];
        st.role_counts[role as usize] += 1;
        match w.case.panic {
            Some(p) if p.role == role && p.at == n && p.thread.map(|x| x as usize == t).unwrap_or(true) => true,
            _ => false,
        }
    })
    .unwrap_or(false);
    if fire {
        log(Ev::Panic { role });
        panic!("scripted panic in {role:?}");
    }
}

/// Executes an allocation script with real allocator calls (seen by the
/// profiler) and logs what was done.
fn run_alloc_script(pick: fn(&AllocScripts) -> &Vec<AllocStep>) {
    let w = WORLD.load(SeqCst);
    if w.is_null() {
        return;
    }
    let world = unsafe { &*w };
    let steps = pick(&world.case.allocs);
    if steps.is_empty() {
        return;
    }
    let is_benched = std::ptr::eq(steps, &world.case.allocs.benched);
    let mut factor = 1u32;
    if world.case.allocs.vary_by_thread {
        factor = 1 + ltid() as u32;
    }
    if is_benched {
        // `calls` was already incremented for the call in progress.
        let call_index = with_state(|_, st, _| st.calls.saturating_sub(1)).unwrap_or(0);
        let first = world.case.allocs.benched_first_calls;
        if first != 0 && call_index >= first as u64 {
            return;
        }
        let call_mask = world.case.allocs.benched_call_mask;
        if call_mask != 0 && call_mask & (1 << (call_index % 16)) == 0 {
            return;
        }
        let thread_mask = world.case.allocs.benched_thread_mask;
        if thread_mask != 0 && thread_mask & (1 << (ltid() % 8)) == 0 {
            return;
        }
        if world.case.allocs.benched_vary {
            factor *= 1 + (call_index % 5) as u32;
        }
    }
    for &step in steps {
        let step = match step {
            AllocStep::Alloc(s) => AllocStep::Alloc(s.saturating_mul(factor)),
            AllocStep::AllocZeroed(s) => AllocStep::AllocZeroed(s.saturating_mul(factor)),
            AllocStep::Realloc(s) => AllocStep::Realloc(s.saturating_mul(factor)),
            AllocStep::Dealloc => AllocStep::Dealloc,
        };
        match step {
            AllocStep::Alloc(size) | AllocStep::AllocZeroed(size) => {
                let layout = Layout::from_size_align(size as usize, 8).unwrap();
                // Zero-sized allocations are not allowed through GlobalAlloc.
                if size == 0 {
                    continue;
                }
                let ptr = unsafe {
                    if matches!(step, AllocStep::Alloc(_)) {
                        std::alloc::alloc(layout)
                    } else {
                        std::alloc::alloc_zeroed(layout)
                    }
                };
                assert!(!ptr.is_null());
                log(Ev::AllocOp { op: 2, old: 0, new: size as u64 });
                galloc::internal(|| with_state(|_, st, _| st.blocks.push((ptr, layout))));
            }
            AllocStep::Realloc(new_size) => {
                if new_size == 0 {
                    continue;
                }
                let top = galloc::internal(|| with_state(|_, st, _| st.blocks.pop()).flatten());
                if let Some((ptr, layout)) = top {
                    let new_ptr = unsafe { std::alloc::realloc(ptr, layout, new_size as usize) };
                    assert!(!new_ptr.is_null());
                    let old = layout.size() as u64;
                    let new = new_size as u64;
                    let op = if new > old {
                        0
                    } else if new < old {
                        1
                    } else {
                        4
                    };
                    log(Ev::AllocOp { op, old, new });
                    let new_layout = Layout::from_size_align(new_size as usize, 8).unwrap();
                    galloc::internal(|| with_state(|_, st, _| st.blocks.push((new_ptr, new_layout))));
                }
            }
            AllocStep::Dealloc => {
                let top = galloc::internal(|| with_state(|_, st, _| st.blocks.pop()).flatten());
                if let Some((ptr, layout)) = top {
                    unsafe { std::alloc::dealloc(ptr, layout) };
                    log(Ev::AllocOp { op: 3, old: layout.size() as u64, new: 0 });
                }
            }
        }
    }
}

// ---------------------------------------------------------------------------
// Instrumented values

/// ROLE: 0 = input, 1 = output.
pub trait Shape<const ROLE: u8>: Sized + 'static {
    fn make(id: u64) -> Self;
    fn ident(&self) -> u64;
}

fn log_drop(role: u8, id: u64) {
    if role == 0 {
        // An input dropped while a call is in progress was consumed by value.
        maybe_panic(Role::DropIn);
        log(Ev::DropIn { id });
        let c = WORLD.load(SeqCst);
        if !c.is_null() {
            advance(unsafe { &*c }.case.costs.drop_in);
        }
        run_alloc_script(|a| &a.drop_in);
    } else {
        maybe_panic(Role::DropOut);
        log(Ev::DropOut { id });
        yields();
        let c = WORLD.load(SeqCst);
        if !c.is_null() {
            advance(unsafe { &*c }.case.costs.drop_out);
        }
        run_alloc_script(|a| &a.drop_out);
    }
}

impl<const ROLE: u8> Shape<ROLE> for () {
    fn make(_id: u64) -> Self {}
    fn ident(&self) -> u64 {
        ZST_ID
    }
}

pub struct ZstDrop<const ROLE: u8>;

impl<const ROLE: u8> Shape<ROLE> for ZstDrop<ROLE> {
    fn make(_id: u64) -> Self {
        ZstDrop
    }
    fn ident(&self) -> u64 {
        ZST_ID
    }
}

impl<const ROLE: u8> Drop for ZstDrop<ROLE> {
    fn drop(&mut self) {
        log_drop(ROLE, ZST_ID);
    }
}

pub struct Plain<const ROLE: u8>(pub u64);

impl<const ROLE: u8> Shape<ROLE> for Plain<ROLE> {
    fn make(id: u64) -> Self {
        Plain(id)
    }
    fn ident(&self) -> u64 {
        self.0
    }
}

/// A sized value with a destructor. It owns no heap memory on purpose: a
/// double drop must be observable, not a crash.
pub struct Owned<const ROLE: u8>(pub u64, pub u64);

const OWNED_MAGIC: u64 = 0x0DD5_EED5_0DD5_EED5;

impl<const ROLE: u8> Shape<ROLE> for Owned<ROLE> {
    fn make(id: u64) -> Self {
        Owned(id, OWNED_MAGIC ^ id)
    }
    fn ident(&self) -> u64 {
        if self.1 == OWNED_MAGIC ^ self.0 {
            self.0
        } else {
            // Garbage (uninitialised or overwritten slot).
            u64::MAX - 1
        }
    }
}

impl<const ROLE: u8> Drop for Owned<ROLE> {
    fn drop(&mut self) {
        let id = <Self as Shape<ROLE>>::ident(self);
        log_drop(ROLE, id);
    }
}

// ---------------------------------------------------------------------------
// The instrumented closures

fn case() -> &'static LoopCase {
    let w = WORLD.load(SeqCst);
    assert!(!w.is_null());
    // The world outlives the run.
    &unsafe { &*w }.case
}

fn gen_input<I: Shape<0>>() -> I {
    maybe_panic(Role::Gen);
    let id = with_state(|_, st, t| {
        let id = ((t as u64) << 40) | st.next_id;
        st.next_id += 1;
        id
    })
    .unwrap_or(u64::MAX - 2);
    let value = I::make(id);
    log(Ev::Gen { id: value.ident() });
    yields();
    advance(case().costs.gen);
    run_alloc_script(|a| &a.gen);
    value
}

/// The count an input counter of `kind` reports for input `id`.
pub fn count_value(kind: u8, id: u64) -> u64 {
    if id == ZST_ID {
        3 + kind as u64
    } else {
        (id & 0xff) * (kind as u64 + 1) + 1
    }
}

fn count_input<I: Shape<0>>(kind: u8, input: &I) -> u64 {
    maybe_panic(Role::Counter);
    let id = input.ident();
    log(Ev::Count { kind, id });
    advance(case().costs.count);
    run_alloc_script(|a| &a.counter);
    count_value(kind, id)
}

fn call_cost() -> u64 {
    with_state(|w, st, t| {
        let c = w.case.costs.call.at(st.calls).saturating_add(w.case.costs.per_thread_skew.saturating_mul(t as u64));
        st.calls += 1;
        c
    })
    .unwrap_or(0)
}

fn benched_body<O: Shape<1>>(input_id: u64, consume_input: impl FnOnce()) -> O {
    let id = if input_id == ZST_ID {
        // No identity: number the call.
        with_state(|_, st, t| ((t as u64) << 40) | (1 << 39) | st.calls).unwrap_or(ZST_ID)
    } else {
        input_id
    };
    let abandon = with_state(|w, st, _| {
        let first = st.calls_since_start == 0;
        st.calls_since_start += 1;
        first && st.windows_done >= w.abandon_at_window.load(SeqCst)
    })
    .unwrap_or(false);
    if abandon {
        panic!("vcheck: runaway run abandoned (event budget)");
    }
    log(Ev::Call { id: input_id });
    yields();
    maybe_panic(Role::Benched);
    advance(call_cost());
    run_alloc_script(|a| &a.benched);
    // A by-value input is dropped by the benchmarked function itself.
    consume_input();
    let out = O::make(id);
    log(Ev::CallRet { id: input_id });
    out
}

macro_rules! apply_const_counters {
    ($b:expr, $c:expr) => {{
        let mut b = $b;
        let c: &LoopCase = $c;
        if let Some(v) = c.const_counters[0] {
            b = b.counter(BytesCount::new(v));
        }
        if let Some(v) = c.const_counters[1] {
            b = b.counter(CharsCount::new(v));
        }
        if let Some(v) = c.const_counters[2] {
            b = b.counter(CyclesCount::new(v));
        }
        if let Some(v) = c.const_counters[3] {
            b = b.counter(ItemsCount::new(v));
        }
        b
    }};
}

macro_rules! apply_counters {
    ($b:expr, $I:ty, $c:expr) => {{
        let mut b = $b;
        let c: &LoopCase = $c;
        if c.const_first {
            b = apply_const_counters!(b, c);
        }
        if c.input_counters[0] {
            b = b.input_counter(|i: &$I| BytesCount::new(count_input(0, i)));
        }
        if c.input_counters[1] {
            b = b.input_counter(|i: &$I| CharsCount::new(count_input(1, i)));
        }
        if c.input_counters[2] {
            b = b.input_counter(|i: &$I| CyclesCount::new(count_input(2, i)));
        }
        if c.input_counters[3] {
            b = b.input_counter(|i: &$I| ItemsCount::new(count_input(3, i)));
        }
        if !c.const_first {
            b = apply_const_counters!(b, c);
        }
        b
    }};
}

fn drive<I: Shape<0>, O: Shape<1>>(bencher: Bencher<'_, '_>, c: &LoopCase) {
    match c.entry {
        Entry::Bench | Entry::BenchLocal => unreachable!("handled by drive_no_input"),
        Entry::BenchValues => {
            let b = apply_counters!(bencher.with_inputs(gen_input::<I>), I, c);
            b.bench_values(|input: I| benched_body::<O>(input.ident(), move || drop(input)));
        }
        Entry::BenchRefs => {
            let b = apply_counters!(bencher.with_inputs(gen_input::<I>), I, c);
            b.bench_refs(|input: &mut I| benched_body::<O>(input.ident(), || ()));
        }
        Entry::BenchLocalValues => {
            let b = apply_counters!(bencher.with_inputs(gen_input::<I>), I, c);
            let mut calls = 0u64;
            b.bench_local_values(|input: I| {
                calls += 1;
                benched_body::<O>(input.ident(), move || drop(input))
            });
            let _ = calls;
        }
        Entry::BenchLocalRefs => {
            let b = apply_counters!(bencher.with_inputs(gen_input::<I>), I, c);
            let mut calls = 0u64;
            b.bench_local_refs(|input: &mut I| {
                calls += 1;
                benched_body::<O>(input.ident(), || ())
            });
            let _ = calls;
        }
    }
}

fn drive_no_input<O: Shape<1>>(bencher: Bencher<'_, '_>, c: &LoopCase) {
    let mut bencher = bencher;
    if let Some(v) = c.const_counters[0] {
        bencher = bencher.counter(BytesCount::new(v));
    }
    if let Some(v) = c.const_counters[1] {
        bencher = bencher.counter(CharsCount::new(v));
    }
    if let Some(v) = c.const_counters[2] {
        bencher = bencher.counter(CyclesCount::new(v));
    }
    if let Some(v) = c.const_counters[3] {
        bencher = bencher.counter(ItemsCount::new(v));
    }
    match c.entry {
        Entry::Bench => bencher.bench(|| benched_body::<O>(ZST_ID, || ())),
        Entry::BenchLocal => {
            let mut calls = 0u64;
            bencher.bench_local(|| {
                calls += 1;
                benched_body::<O>(ZST_ID, || ())
            });
            let _ = calls;
        }
        _ => unreachable!(),
    }
}

fn dispatch_output<I: Shape<0>>(bencher: Bencher<'_, '_>, c: &LoopCase) {
    match c.output {
        ShapeKind::Unit => drive::<I, ()>(bencher, c),
        ShapeKind::ZstDrop => drive::<I, ZstDrop<1>>(bencher, c),
        ShapeKind::Plain => drive::<I, Plain<1>>(bencher, c),
        ShapeKind::Owned => drive::<I, Owned<1>>(bencher, c),
    }
}

fn dispatch(bencher: Bencher<'_, '_>, c: &LoopCase) {
    if !c.entry.has_inputs() {
        match c.output {
            ShapeKind::Unit => drive_no_input::<()>(bencher, c),
            ShapeKind::ZstDrop => drive_no_input::<ZstDrop<1>>(bencher, c),
            ShapeKind::Plain => drive_no_input::<Plain<1>>(bencher, c),
            ShapeKind::Owned => drive_no_input::<Owned<1>>(bencher, c),
        }
        return;
    }
    match c.input {
        ShapeKind::Unit => dispatch_output::<()>(bencher, c),
        ShapeKind::ZstDrop => dispatch_output::<ZstDrop<0>>(bencher, c),
        ShapeKind::Plain => dispatch_output::<Plain<0>>(bencher, c),
        ShapeKind::Owned => dispatch_output::<Owned<0>>(bencher, c),
    }
}

// ---------------------------------------------------------------------------
// Running a case

#[derive(Debug)]
pub struct LoopOutcome {
    /// `Err(panic message)` if the run unwound out of the entry point.
    pub result: Result<(), String>,
    pub view: RunView,
    /// `compute_stats()` (bench mode, after a run that did not panic).
    pub stats: Option<Result<StatsView, String>>,
    /// The painted leaf row(s), if `PAINT` was set.
    pub painted: Option<String>,
    /// Event log per logical thread.
    pub logs: Vec<Vec<Event>>,
    pub stray_events: u64,
    /// The run was wound down by the harness because it exceeded the event
    /// budget (`result` is then an `Err` from the harness's own panic).
    pub abandoned: bool,
}

/// Runs one case on real threads (no scheduler).
pub fn run_loop(c: &LoopCase) -> LoopOutcome {
    run_loop_with(c, |f| f())
}

/// Runs one case; `wrap` lets a caller put the run under a scheduler.
pub fn run_loop_with(c: &LoopCase, wrap: impl FnOnce(&mut dyn FnMut())) -> LoopOutcome {
    let world = Box::new(World {
        case: c.clone(),
        threads: (0..MAX_THREADS)
            .map(|k| {
                UnsafeCell::new(ThreadState {
                    log: if k < c.threads.max(1) as usize { Vec::with_capacity(512) } else { Vec::new() },
                    clock: c.clock0,
                    next_id: 0,
                    calls: 0,
                    role_counts: [0; 5],
                    blocks: Vec::new(),
                    current_call: 0,
                    used: false,
                    windows_done: 0,
                    calls_since_start: 0,
                })
            })
            .collect(),
        seq: AtomicU64::new(0),
        stray_events: AtomicU64::new(0),
        abandon_at_window: AtomicU64::new(u64::MAX),
    });
    let world_ptr = Box::into_raw(world);
    LTID.with(|l| l.set(0));
    WORLD.store(world_ptr, SeqCst);
    clock::set_reader(Some(clock_reader));
    divan::__verif::alloc::set_clear_observer(Some(|| log(Ev::TallyClear)));
    clock::set_precision(Some(c.precision_ps as u128));
    clock::set_overheads(Some(c.overheads_ps.map(|x| x as u128)));

    let options = c.options();
    let mut outcome_view = RunView::default();
    let mut stats = None;
    let mut painted = None;
    let mut result: Result<(), String> = Ok(());
    {
        let mut body = || {
            // Created (and dropped) inside the body so that under a scheduler
            // the pool's workers are spawned, and exit, as scheduled threads.
            let ctx = BenchCtx::new(if c.test_mode { VAction::Test } else { VAction::Bench }, Some(c.frequency.max(1)));
            let mut run = ctx.start(&options, c.threads.max(1) as usize);
            result = catch(|| galloc::profiled(|| dispatch(run.bencher(), c)));
            outcome_view = run.view();
            if result.is_ok() && !c.test_mode {
                stats = Some(catch(|| run.compute_stats()));
                if PAINT.load(SeqCst) && matches!(stats, Some(Ok(_))) {
                    let (_, text) = crate::capture::stdout(|| run.paint_leaf("bench", true, 12, false));
                    painted = Some(text);
                }
            }
        };
        wrap(&mut body);
    }

    clock::set_reader(None);
    divan::__verif::alloc::set_clear_observer(None);
    clock::set_precision(None);
    clock::set_overheads(None);
    WORLD.store(std::ptr::null_mut(), SeqCst);
    // Workers may still be between their last event and thread exit, but they
    // no longer touch the world (the null pointer above is checked first and
    // every task has completed). Reclaim it.
    let world = unsafe { Box::from_raw(world_ptr) };
    let stray = world.stray_events.load(SeqCst);
    let abandoned = world.abandon_at_window.load(SeqCst) != u64::MAX;
    let mut logs = Vec::new();
    for cell in world.threads.into_iter() {
        let st = cell.into_inner();
        for (ptr, layout) in st.blocks {
            unsafe { std::alloc::dealloc(ptr, layout) };
        }
        logs.push(st.log);
    }
    while logs.len() > 1 && logs.last().map(|l| l.is_empty()).unwrap_or(false) {
        logs.pop();
    }
    LoopOutcome { result, view: outcome_view, stats, painted, logs, stray_events: stray, abandoned }
}
