//! Trace utilities over the per-thread event logs produced by `loopdrv`.

use crate::loopdrv::{Ev, Event};

/// One round of one thread: the untimed events before the start timestamp
/// (input generation, counting), the timed section, and the untimed events
/// after the end timestamp (drops).
#[derive(Clone, Debug, Default)]
pub struct Round {
    pub pre: Vec<Event>,
    pub start: u64,
    pub start_seq: u64,
    pub window: Vec<Event>,
    pub end: u64,
    pub end_seq: u64,
    pub post: Vec<Event>,
}

impl Round {
    pub fn calls(&self) -> usize {
        self.window.iter().filter(|e| matches!(e.ev, Ev::Call { .. })).count()
    }
}

#[derive(Clone, Debug, Default)]
pub struct ThreadTrace {
    /// Start readings whose next reading on the thread is not an end reading
    /// (the loop's "initial start"): `(value, seq)`.
    pub lone_starts: Vec<(u64, u64)>,
    pub rounds: Vec<Round>,
    /// Events of a timed section that never got its end reading (unwound).
    pub open_window: Option<Vec<Event>>,
    /// Untimed events after the last completed round that are not drops, or
    /// all events if there is no completed round.
    pub tail: Vec<Event>,
    pub problems: Vec<String>,
}

/// For every event: is it a start reading that opens a timed section (the
/// next reading on the thread is an end reading)?
pub fn paired_starts(log: &[Event]) -> Vec<bool> {
    let mut out = vec![false; log.len()];
    let mut last_start: Option<usize> = None;
    for (i, e) in log.iter().enumerate() {
        match e.ev {
            Ev::TsStart { .. } => last_start = Some(i),
            Ev::TsEnd { .. } => {
                if let Some(s) = last_start.take() {
                    out[s] = true;
                }
            }
            _ => {}
        }
    }
    // A start reading that never got its end reading because the run unwound
    // out of the timed section still opens a (never closed) timed section.
    if let Some(s) = last_start {
        if log[s + 1..].iter().any(|e| matches!(e.ev, Ev::Call { .. })) {
            out[s] = true;
        }
    }
    out
}

/// Splits a thread's log into rounds.
pub fn segment(log: &[Event]) -> ThreadTrace {
    let paired = paired_starts(log);
    let mut t = ThreadTrace::default();
    let mut between: Vec<Event> = Vec::new();
    let mut window: Option<(u64, u64, Vec<Event>)> = None;

    // Splits `between` into (post of previous round, pre of next round).
    fn split(between: Vec<Event>) -> (Vec<Event>, Vec<Event>) {
        let mut post = Vec::new();
        let mut pre = Vec::new();
        let mut to_post = true;
        for e in between {
            match e.ev {
                Ev::DropOut { .. } | Ev::DropIn { .. } | Ev::Consumed { .. } => to_post = true,
                Ev::AllocOp { .. } | Ev::Panic { .. } => {}
                _ => to_post = false,
            }
            if to_post {
                post.push(e);
            } else {
                pre.push(e);
            }
        }
        (post, pre)
    }

    for (i, &e) in log.iter().enumerate() {
        match e.ev {
            Ev::TsStart { v } if paired[i] => {
                if window.is_some() {
                    t.problems.push("nested start timestamps".into());
                }
                window = Some((v, e.seq, Vec::new()));
            }
            Ev::TsStart { v } => {
                // A lone start inside a window cannot happen by construction
                // of `paired`; outside it is the initial start.
                t.lone_starts.push((v, e.seq));
            }
            Ev::TsEnd { v } => match window.take() {
                Some((sv, sseq, w)) => {
                    let (post, pre) = split(std::mem::take(&mut between));
                    match t.rounds.last_mut() {
                        Some(prev) => prev.post.extend(post),
                        None => {
                            if !post.is_empty() {
                                t.problems.push("drop events before the first timed section".into());
                            }
                        }
                    }
                    t.rounds.push(Round { pre, start: sv, start_seq: sseq, window: w, end: v, end_seq: e.seq, post: Vec::new() });
                }
                None => t.problems.push("end timestamp without a start timestamp".into()),
            },
            _ => match &mut window {
                Some((_, _, w)) => w.push(e),
                None => between.push(e),
            },
        }
    }
    if let Some((_, _, w)) = window.take() {
        t.open_window = Some(w);
    }
    let (post, pre) = split(between);
    match t.rounds.last_mut() {
        Some(prev) => {
            prev.post.extend(post);
            t.tail = pre;
        }
        None => {
            t.tail = post;
            t.tail.extend(pre);
        }
    }
    t
}
