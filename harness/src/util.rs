//! Small helpers shared by generators.

use proptest::prelude::*;

/// u64 values biased towards boundaries.
pub fn edge_u64() -> impl Strategy<Value = u64> {
    prop_oneof![
        3 => any::<u64>(),
        2 => (0u32..64, any::<u64>()).prop_map(|(bits, v)| if bits == 0 { 0 } else { v >> (64 - bits) }),
        2 => (0u32..64, -2i64..=2).prop_map(|(k, d)| (1u64 << k).wrapping_add(d as u64)),
        1 => (0u32..20, -2i64..=2).prop_map(|(k, d)| 10u64.pow(k).wrapping_add(d as u64)),
        1 => prop_oneof![Just(0u64), Just(1), Just(u64::MAX), Just(u64::MAX - 1), Just(1 << 63), Just((1 << 63) - 1), Just(u32::MAX as u64), Just(u32::MAX as u64 + 1)],
    ]
}

/// u128 values uniform by bit length.
pub fn bitlen_u128() -> impl Strategy<Value = u128> {
    (0u32..=128, any::<u128>()).prop_map(|(bits, v)| if bits == 0 { 0 } else { v >> (128 - bits) })
}

/// Monotone index mapping (shrinks towards 0).
pub fn pick_index(raw: u16, len: usize) -> usize {
    if len == 0 {
        0
    } else {
        ((raw as usize) * len) >> 16
    }
}
