#![no_main]
//! libFuzzer target: the input bytes drive the generator of C16 group "tree_cli"; the group's oracle decides.
use libfuzzer_sys::fuzz_target;

#[global_allocator]
static GLOBAL: vcheck::galloc::Outer = vcheck::galloc::Outer::new();

fuzz_target!(|data: &[u8]| {
    vcheck::fuzz::one("C16", "tree_cli", data);
});
