#![no_main]
//! libFuzzer target: the input bytes drive the generator of C04 group "budget_routes"; the group's oracle decides.
use libfuzzer_sys::fuzz_target;

#[global_allocator]
static GLOBAL: vcheck::galloc::Outer = vcheck::galloc::Outer::new();

fuzz_target!(|data: &[u8]| {
    vcheck::fuzz::one("C04", "budget_routes", data);
});
