// One of two benchmark threads panics in the benchmarked function: the run
// must end with a panic on the calling thread instead of hanging.
use std::{sync::atomic::{AtomicUsize, Ordering}, time::Duration};

static MAIN: AtomicUsize = AtomicUsize::new(0);

fn tid() -> usize {
    // Address of a thread-local as a cheap thread identity.
    thread_local!(static X: u8 = 0);
    X.with(|x| x as *const u8 as usize)
}

#[divan::bench(threads = 2, sample_count = 4, sample_size = 1)]
fn one_thread_panics() {
    if tid() == MAIN.load(Ordering::SeqCst) {
        panic!("benchmarked function panics on the calling thread");
    }
}

#[test]
fn panic_on_a_subset_of_threads_ends_the_run() {
    MAIN.store(tid(), Ordering::SeqCst);
    std::thread::spawn(|| {
        std::thread::sleep(Duration::from_secs(10));
        eprintln!("HANG: the run did not end within 10 s");
        std::process::exit(3);
    });
    let r = std::panic::catch_unwind(|| divan::Divan::default().run_benches());
    assert!(r.is_err(), "the run returned normally although a benchmark thread panicked");
}
